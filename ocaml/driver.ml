(* Line-oriented driver: reads "<id>\t<case>" lines on stdin, prints "<id>\t<model result>".
   Usage: driver <property>.  Parsing/printing only; all logic is in the extracted Model. *)
open Model
open Conv

let wraw (metas : string) : string =
  (* wraw name~metahex;...  ->  name=weight,... as createWeighted derives it from the raw metadata *)
  String.concat "," (List.map (fun t -> match String.split_on_char '~' t with
    | [k; m] ->
      (* an int64-sized weight does not fit OCaml's 63-bit int: print through Int64 *)
      let rec i64 p = (match p with XH -> 1L | XO q -> Int64.mul 2L (i64 q) | XI q -> Int64.add 1L (Int64.mul 2L (i64 q))) in
      k ^ "=" ^ (match weight_raw (bytes_of_hex m) with Z0 -> "0" | Zpos p -> Printf.sprintf "%Ld" (i64 p) | Zneg p -> Printf.sprintf "-%Ld" (i64 p))
    | _ -> failwith "wraw") (String.split_on_char ';' metas))

let c12 (payload : string) : string =
  if String.length payload > 5 && String.sub payload 0 5 = "wraw " then wraw (String.sub payload 5 (String.length payload - 5)) else
  match split_on ' ' payload with
  | [] -> "bad"
  | kind :: toks ->
    let out_ids = ref [] in (* ids of the current slice, for mapping indices back *)
    ignore out_ids;
    (* Each update gives the ids in slice order; the model works on slice indices.  We run the
       model op by op so that each selected index is mapped through the slice current then. *)
    let res = Buffer.create 64 in
    let emit ids (r : nat option) =
      (match r with
       | None -> Buffer.add_string res "-"
       | Some i -> Buffer.add_string res (List.nth ids (int_of_nat i)));
      Buffer.add_char res ' ' in
    if kind = "rr" then begin
      let st = ref (rr_new []) and ids = ref [] in
      List.iter (fun t ->
        if t = "S" then begin
          let (s', outs) = rr_run !st [RRSelect] in
          st := s'; List.iter (emit !ids) outs
        end else begin
          let body = String.sub t 2 (String.length t - 2) in
          ids := split_on ',' body;
          let idx = List.mapi (fun i _ -> nat_of_int i) !ids in
          let (s', _) = rr_run !st [RRUpdate idx] in st := s'
        end) toks
    end else begin
      let st = ref (wrr_new []) and ids = ref [] in
      List.iter (fun t ->
        if t = "S" then begin
          let (s', outs) = wrr_run !st [WSelect] in
          st := s'; List.iter (emit !ids) outs
        end else begin
          let body = String.sub t 2 (String.length t - 2) in
          let ents = List.map (fun e -> match String.split_on_char '=' e with
              | [a; b] -> (a, b) | _ -> failwith "bad entry") (split_on ',' body) in
          ids := List.map fst ents;
          let ws = List.map (fun (_, w) -> if w = "x" then None else Some (z_of_int (int_of_string w))) ents in
          let (s', _) = wrr_run !st [WUpdate ws] in st := s'
        end) toks
    end;
    String.trim (Buffer.contents res)


(* ---------------- C01 / C02: wire codec ---------------- *)
let derr_name (e : derr) = match e with
  | EOF -> "EOF" | UnexpectedEOF -> "UnexpectedEOF" | BadMagic -> "BadMagic" | TooLong -> "TooLong"
  | InvalidFrame -> "InvalidFrame" | MetaKVMissing -> "MetaKVMissing"
  | UnsupportedCompressor -> "UnsupportedCompressor" | UnzipError -> "UnzipError"
  | RecoveredPanic -> "RecoveredPanic"

(* a compressor environment from a one-shot spec: "N" none needed, "U" unregistered, "E" fails, hex = result *)
let env_of_spec (zipspec : string) (unzipspec : string) : n -> compressor option =
  let f spec = fun (_ : n list) -> if spec = "E" then None else Some (bytes_of_hex spec) in
  fun _ -> if zipspec = "U" || unzipspec = "U" then None
           else Some { c_zip = f zipspec; c_unzip = f unzipspec }

let parse_meta (s : string) : (n list * n list) list =
  if s = "-" then [] else
  List.map (fun e -> match String.split_on_char ':' e with
    | [k; v] -> (bytes_of_hex k, bytes_of_hex v) | _ -> failwith "meta") (String.split_on_char ',' s)

(* Go map semantics + canonical order for printing: later duplicate wins, sorted by key bytes *)
let show_meta (kvs : (n list * n list) list) : string =
  let tbl = Hashtbl.create 8 in
  List.iter (fun (k, _) ->
    let ks = raw_of_bytes k in
    match meta_lookup k kvs with
    | Some v -> Hashtbl.replace tbl ks (raw_of_bytes v)
    | None -> ()) kvs;
  let l = Hashtbl.fold (fun k v acc -> (k, v) :: acc) tbl [] in
  let l = List.sort compare l in
  if l = [] then "-" else String.concat "," (List.map (fun (k, v) -> show_raw k ^ ":" ^ show_raw v) l)

let show_msg (m : message) : string =
  Printf.sprintf "%s %s %s %s %s" (show_bytes m.m_hdr) (show_bytes m.m_path) (show_bytes m.m_meth)
    (show_meta m.m_meta) (show_bytes m.m_payload)

let rec nlen (l : 'a list) : int = List.length l

let c01 (payload : string) : string =
  match split_on ' ' payload with
  | ["hdr"; h; op; v] ->
    let h = bytes_of_hex h in
    let h' = (match op with
      | "version" -> setVersion h (n_of_dec v)
      | "type" -> setMessageType h (n_of_dec v)
      | "hb" -> setHeartbeat h (v = "1")
      | "ow" -> setOneway h (v = "1")
      | "compress" -> setCompressType h (n_of_dec v)
      | "status" -> setMessageStatusType h (n_of_dec v)
      | "serialize" -> setSerializeType h (n_of_dec v)
      | "seq" -> setSeq h (n_of_dec v)
      | _ -> failwith "op") in
    let b x = if x then "1" else "0" in
    Printf.sprintf "%s v=%d t=%d hb=%s ow=%s c=%d st=%d ser=%d seq=%s" (show_bytes h')
      (int_of_n (version h')) (int_of_n (messageType h')) (b (isHeartbeat h')) (b (isOneway h'))
      (int_of_n (compressType h')) (int_of_n (messageStatusType h')) (int_of_n (serializeType h'))
      (show_bytes (List.filteri (fun i _ -> i >= 4) h'))
  | [kind; h; sp; sm; meta; pl; zipspec] when kind = "encp" || kind = "encs" ->
    let m = { m_hdr = bytes_of_hex h; m_path = bytes_of_hex sp; m_meth = bytes_of_hex sm;
              m_meta = parse_meta meta; m_payload = bytes_of_hex pl } in
    let env = env_of_spec zipspec "N" in
    if kind = "encp" then begin
      let l = int_of_n (encode_len env m) in
      let garbage = List.init l (fun _ -> n_of_int 0xAA) in
      show_bytes (encode_pooled env garbage m)
    end else begin
      match encode_stream env m with
      | (b, None) -> show_bytes b
      | (b, Some WUnsupportedCompressor) -> show_bytes b ^ " ERR UnsupportedCompressor"
      | (b, Some WZipError) -> show_bytes b ^ " ERR ZipError"
    end
  | _ -> "bad"

let show_dec (r : msgobj outcome * n list) : string =
  match r with
  | (Ok o, rest) -> Printf.sprintf "OK %s rest=%d" (show_msg o.o_msg) (nlen rest)
  | (Err e, rest) -> Printf.sprintf "ERR %s rest=%d" (derr_name e) (nlen rest)
  | (Panic, rest) -> Printf.sprintf "PANIC rest=%d" (nlen rest)

let c02 (payload : string) : string =
  match split_on ' ' payload with
  | "dec" :: max :: steps ->
    let maxlen = n_of_dec max in
    let obj = ref fresh_obj and out = ref [] and stop = ref false in
    List.iter (fun st ->
      if not !stop then begin
        match String.split_on_char ':' st with
        | [rs; stream; unz] ->
          if rs = "R" then obj := { o_msg = fresh_obj.o_msg; o_backing = !obj.o_backing };
          let r = decode (env_of_spec "N" unz) maxlen !obj (bytes_of_hex stream) in
          out := show_dec r :: !out;
          (match r with (Ok o, _) -> obj := o | _ -> stop := true)
        | _ -> failwith "step"
      end) steps;
    String.concat " | " (List.rev !out)
  | "all" :: max :: stream :: rest ->
    let s = bytes_of_hex stream in
    (* optional table of what the registered compressors' Unzip returned: ct/raw:out,... (out = E: an error) *)
    let table = (match rest with
      | [t] when t <> "-" -> List.map (fun e -> match String.split_on_char ':' e with
          | [k; out] -> (match String.split_on_char '/' k with
                         | [ct; raw] -> ((int_of_string ct, raw_of_bytes (bytes_of_hex raw)), out) | _ -> failwith "unzip table")
          | _ -> failwith "unzip table") (String.split_on_char ',' t)
      | _ -> []) in
    let env (ct : n) : compressor option =
      let c = int_of_n ct in
      if List.exists (fun ((c', _), _) -> c' = c) table then
        Some { c_zip = (fun _ -> None);
               c_unzip = (fun raw -> match List.assoc_opt (c, raw_of_bytes raw) table with
                                     | Some "E" | None -> None | Some out -> Some (bytes_of_hex out)) }
      else None in
    let (ms, e) = decode_all (nat_of_int (1 + List.length s / 16)) env (n_of_dec max) fresh_obj s in
    Printf.sprintf "n=%d %s end=%s" (List.length ms)
      (String.concat " ; " (List.map show_msg ms))
      (match e with None -> "none" | Some e -> derr_name e)
  | _ -> "bad"

(* ---------------- C11 / C13: selectors ---------------- *)
(* server names are "s<number>": the number is the model's object id (name order = id order) *)
let sid (name : string) : nat = nat_of_int (int_of_string (String.sub name 1 (String.length name - 1)))
let sname (i : nat) : string = Printf.sprintf "s%02d" (int_of_nat i)
let show_sel (r : nat option) = match r with None -> "-" | Some i -> sname i

let zbytes_of_hex (s : string) : z list = List.map (fun x -> z_of_int (int_of_n x)) (bytes_of_hex s)

let c11 (payload : string) : string =
  match split_on ' ' payload with
  | [] -> "bad"
  | kind :: toks when kind = "rr" || kind = "wrr" -> c12 payload
  | "rnd" :: toks ->
    let cur = ref [] and out = Buffer.create 64 in
    List.iter (fun t ->
      let body = String.sub t 2 (String.length t - 2) in
      if t.[0] = 'U' then cur := List.map sid (split_on ',' body)
      else begin
        (* S:<observed>: echo it when some oracle index yields it, else flag it *)
        let n = List.length !cur in
        let valid = if n = 0 then [None] else List.init n (fun i -> rnd_select !cur (nat_of_int i)) in
        let obs = if body = "-" then None else Some (sid body) in
        Buffer.add_string out (if List.mem obs valid then show_sel obs else "!" ^ body); Buffer.add_char out ' '
      end) toks;
    String.trim (Buffer.contents out)
  | "geo" :: toks ->
    let cur = ref [] and out = Buffer.create 64 in
    List.iter (fun t ->
      let body = String.sub t 2 (String.length t - 2) in
      if t.[0] = 'U' then
        cur := create_geo (List.map (fun e ->
          match String.split_on_char '=' e with
          | [name; spec] ->
            let c ch = (match ch with 'F' -> CFinite | 'N' -> CNonFinite | _ -> CMissing) in
            let d = String.sub spec 2 (String.length spec - 2) in
            { g_id = sid name; g_lat = c spec.[0]; g_lon = c spec.[1];
              g_dist = (if d = "nan" || d = "-" then None else Some (z_of_dec d)) }
          | _ -> failwith "geo entry") (split_on ',' body))
      else begin
        let cands = List.length !cur in
        let valid = List.init (max cands 1) (fun i -> geo_select !cur (nat_of_int i)) in
        let obs = if body = "-" then None else Some (sid body) in
        Buffer.add_string out (if List.mem obs valid then show_sel obs else "!" ^ body); Buffer.add_char out ' '
      end) toks;
    String.trim (Buffer.contents out)
  | "ch" :: toks ->
    let st = ref None and out = Buffer.create 64 in
    List.iter (fun t ->
      let body = String.sub t 2 (String.length t - 2) in
      if t.[0] = 'U' then begin
        let keys = List.map sid (split_on ',' body) in
        st := Some (match !st with None -> ch_new keys | Some s -> ch_update s keys)
      end else begin
        (* K:<hex of the key string>: the model computes FNV-1a and routes *)
        let key = hash_string (zbytes_of_hex body) in
        (match !st with
         | None -> Buffer.add_string out "-"
         | Some s -> Buffer.add_string out (show_sel (ch_select s key)));
        Buffer.add_char out ' '
      end) toks;
    String.trim (Buffer.contents out)
  | _ -> "bad"

let c13 (payload : string) : string =
  match split_on ' ' payload with
  | ["jump"; key; n] -> string_of_int (int_of_z (jump (z_of_dec key) (z_of_dec n)))
  | ["fnv"; hex] -> (match hash_string (zbytes_of_hex hex) with
      | Z0 -> "0" | Zpos p -> (let rec go p = match p with XH -> 1L | XO q -> Int64.mul 2L (go q) | XI q -> Int64.add 1L (Int64.mul 2L (go q)) in Printf.sprintf "%Lu" (go p))
      | Zneg _ -> "neg")
  | "ch" :: _ -> c11 payload
  | _ -> "bad"

(* ---------------- C18: circuit breaker ---------------- *)
let c18 (payload : string) : string =
  match split_on ' ' payload with
  | "br" :: thr :: win :: evs ->
    let cfg = { threshold = z_of_dec thr; window = z_of_dec win } in
    let tr = List.map (fun e ->
      match String.split_on_char '@' e with
      | ["R"; t] -> EReady (z_of_dec t)
      | ["F"; t] -> EFail (z_of_dec t)
      | ["S"; t] -> ESuccess (z_of_dec t)
      | ["C"; rest] -> (match String.split_on_char ':' rest with
          | [t; ok; t'] -> ECall (z_of_dec t, ok = "ok", z_of_dec t')
          | _ -> failwith "call")
      | _ -> failwith "event") evs in
    let (_, outs) = b_run cfg b_init tr in
    String.concat " " (List.map (fun o -> match o with
      | OReady true -> "r1" | OReady false -> "r0"
      | OInvoked true -> "inv-ok" | OInvoked false -> "inv-fail"
      | ORefused -> "refused" | ONone -> "-") outs)
  | "xb" :: thr :: win :: evs ->
    let cfg = { threshold = z_of_dec thr; window = z_of_dec win } in
    let tr = List.map (fun e -> match String.split_on_char ':' e with
      | [t; ok] -> (z_of_dec t, ok = "ok") | _ -> failwith "dial") evs in
    let (_, outs) = xb_run cfg { xb_exists = false; xb_b = b_init } tr in
    String.concat " " (List.map (fun o -> match o with
      | Dialed true -> "dial-ok" | Dialed false -> "dial-fail" | DialSkipped -> "skip") outs)
  | _ -> "bad"

(* ---------------- C03 / C05 / C06: client state machine ---------------- *)
let res_name (r : result) : string = match r with
  | ROk p -> "ok:" ^ string_of_int (int_of_nat p)
  | RSvcErr t -> "svc:" ^ string_of_int (int_of_nat t)
  | RDecodeErr -> "decode" | RCodecErr -> "codec" | RCtx -> "ctx" | RConnErr -> "conn"
  | RShutdown -> "shutdown" | RWriteErr -> "write" | REncErr -> "enc" | ROneway -> "ok:0"

let csm (payload : string) : string =
  match String.split_on_char ';' payload with
  | [cspec; evs] ->
    let b s = (s = "1") in
    let calls = List.map (fun t -> match String.split_on_char ':' t with
      | [k; o; rs] -> new_call (match k with "G" -> KGo | "C" -> KCall | _ -> KRaw) (b o) (n_of_dec rs)
      | _ -> failwith "call") (split_on ' ' (String.trim cspec)) in
    let ev t = match String.split_on_char ':' t with
      | ["reg"; c] -> EReg (nat_of_int (int_of_string c))
      | ["rawreg"; c] -> ERawReg (nat_of_int (int_of_string c))
      | ["encfail"; c] -> EEncFail (nat_of_int (int_of_string c))
      | ["wok"; c] -> EWriteOk (nat_of_int (int_of_string c))
      | ["wfail"; c] -> EWriteFail (nat_of_int (int_of_string c))
      | ["ow"; c] -> EOneway (nat_of_int (int_of_string c))
      | ["ctx"; c] -> ECtx (nat_of_int (int_of_string c))
      | ["take"; c] -> ETake (nat_of_int (int_of_string c))
      | ["rderr"; e] -> EReadErr (b e)
      | ["close"] -> EClose
      | ["recv"; id; seq; push; err; meta; text; pl; dec; codec] ->
        ERecv { f_id = nat_of_int (int_of_string id); f_seq = n_of_dec seq; f_servermsg = b push; f_error = b err;
                f_hasmeta = b meta; f_text = nat_of_int (int_of_string text); f_payload = nat_of_int (int_of_string pl);
                f_decodable = b dec; f_codec_ok = b codec }
      | _ -> failwith ("event " ^ t) in
    let sched = List.map ev (split_on ' ' (String.trim evs)) in
    let st = run (init calls true) sched in
    let show_call (x : call) =
      match x.c_kind with
      | KGo ->
        let n = List.length x.c_signals in
        let last = (match List.rev x.c_signals with (_, r) :: _ -> res_name r | [] -> "-") in
        Printf.sprintf "G:%d:%s" n last
      | KCall -> "C:ret=" ^ (match x.c_ret with Some r -> res_name r | None -> "-")
      | KRaw -> "R:ret=" ^ (match x.c_ret with Some r -> res_name r | None -> "-") in
    Printf.sprintf "%s | pushes=%s pending=%d shutdown=%s closing=%s"
      (String.concat " " (List.map show_call st.calls))
      (String.concat "," (List.map (fun i -> string_of_int (int_of_nat i)) st.pushes))
      (List.length st.pending) (if st.shutdown then "1" else "0") (if st.closing then "1" else "0")
  | _ -> "bad"

(* ---------------- C10: fail modes ---------------- *)
let c10 (payload : string) : string =
  (* <mode> <retries> <rr> srv;srv;...   srv = dials(0/1 string or -)/calls(comma list: ok<r> svc lost ctx dl or -) *)
  match split_on ' ' payload with
  | [m; r; rr; srvs] ->
    let mode = (match m with "fast" -> Failfast | "try" -> Failtry | _ -> Failover) in
    let parse_srv t = (match String.split_on_char '/' t with
      | [d; c] ->
        let dials = if d = "-" then [] else List.init (String.length d) (fun i -> d.[i] = '1') in
        let calls = if c = "-" then [] else List.map (fun o ->
          if String.length o > 2 && String.sub o 0 2 = "ok" then OOk (nat_of_int (int_of_string (String.sub o 2 (String.length o - 2))))
          else match o with "svc" | "svc0" -> OSvc | "lost" -> OLost | "ctx" -> OCtx | "dl" -> ODeadline | _ -> failwith "outcome")
          (String.split_on_char ',' c) in
        { s_cached = false; s_dials = dials; s_calls = calls }
      | _ -> failwith "srv") in
    let servers = if srvs = "-" then [] else List.map parse_srv (String.split_on_char ';' srvs) in
    let en = { servers = servers; rr = nat_of_int (int_of_string rr); attempts = [] } in
    let res = if String.length m = 8 && String.sub m 0 6 = "backup"
      then xcall_backup { b_early = (m.[6] = '1'); b_first_primary = (m.[7] = '1') } en
      else xcall mode (nat_of_int (int_of_string r)) en in
    let show_o o = (match o with OOk r -> "ok" ^ string_of_int (int_of_nat r) | OSvc -> "svc" | OLost -> "lost" | OCtx -> "ctx" | ODeadline -> "dl") in
    let log = String.concat "," (List.map (fun (s, o) -> Printf.sprintf "s%d:%s" (int_of_nat s) (show_o o)) res.x_env.attempts) in
    let err = (match res.x_err with
      | None -> "ok:" ^ (match res.x_reply with Some r -> string_of_int (int_of_nat r) | None -> "?")
      | Some XSvc -> "svc" | Some XLost -> "lost" | Some XCtx -> "ctx" | Some XDeadline -> "dl"
      | Some XDial -> "dial" | Some XNoServer -> "noserver" | Some XUnavailable -> "unavailable") in
    Printf.sprintf "[%s] %s" log err
  | _ -> "bad"

(* ---------------- C17: broadcast / fork / inform ---------------- *)
let c17 (payload : string) : string =
  (* <op> <v: ok7,svc,lost,slow> <order: 2,0,1> ; error ids: svc=1 lost=2 slow=3 *)
  match split_on ' ' payload with
  | [op; vs; os] ->
    let v = List.map (fun t ->
      if String.length t > 2 && String.sub t 0 2 = "ok" then MOk (nat_of_int (int_of_string (String.sub t 2 (String.length t - 2))))
      else MFail (nat_of_int (match t with "svc" -> 1 | "lost" -> 2 | _ -> 3))) (String.split_on_char ',' vs) in
    let order = List.map (fun t -> nat_of_int (int_of_string t)) (String.split_on_char ',' os) in
    let ename e = (match int_of_nat e with 1 -> "svc" | 2 -> "lost" | _ -> "slow") in
    (* which of several successful servers' replies the caller ends up with depends on their completion order,
       which the harness forces by delays only: both sides print "S" for "the reply of a server that succeeded" *)
    let oks = List.filter_map (fun x -> match x with MOk r -> Some (int_of_nat r) | _ -> None) v in
    let show_reply ok r = if ok then (match r with
        | Some x -> if List.mem (int_of_nat x) oks then "S" else string_of_int (int_of_nat x)
        | None -> "none") else "*" in
    (match op with
     | "B" -> let (errs, rep) = broadcast v order in
       Printf.sprintf "%s reply=%s" (if errs = [] then "nil" else "err") (show_reply (errs = []) rep)
     | "F" -> let (errs, rep) = fork v order in
       Printf.sprintf "%s reply=%s" (if errs = [] then "nil" else "err") (show_reply (errs = []) rep)
     | _ -> let ((rs, errs), rep) = inform v order in
       let rs = List.sort compare (List.map (fun ((i, r), e) ->
         Printf.sprintf "s%d:%s:%s" (int_of_nat i)
           (match r with Some x -> string_of_int (int_of_nat x) | None -> "-")
           (match e with Some e -> ename e | None -> "nil")) rs) in
       Printf.sprintf "%s [%s] reply=%s" (if errs = [] then "nil" else "err") (String.concat "," rs) (show_reply (errs = []) rep))
  | _ -> "bad"

(* ---------------- C14: discovery ---------------- *)
let c14 (payload : string) : string =
  match split_on ' ' payload with
  | ["flt"; group; srvs] ->
    let parse_srv t = (match String.split_on_char ':' t with
      | [id; p] ->
        let parsed = if p = "E" then None
          else if p = "-" then Some []
          else Some (List.map (fun kv -> match String.split_on_char '=' kv with
            | [k; v] -> (nat_of_int (int_of_string k), nat_of_int (int_of_string v)) | _ -> failwith "kv")
            (String.split_on_char ',' p)) in
        (nat_of_int (int_of_string id), parsed)
      | _ -> failwith "srv") in
    let servers = if srvs = "-" then [] else List.map parse_srv (String.split_on_char ';' srvs) in
    let kept = filter_servers (nat_of_int (int_of_string group)) servers in
    let ids = List.sort compare (List.map (fun (i, _) -> int_of_nat i) kept) in
    if ids = [] then "-" else String.concat "," (List.map string_of_int ids)
  | ["fltraw"; group; srvs] ->
    (* the raw metadata strings, parsed by the model's own url.ParseQuery: key~metahex;... *)
    let servers = if srvs = "-" then [] else List.map (fun t -> match String.split_on_char '~' t with
      | [k; m] -> (bytes_of_hex k, bytes_of_hex m) | _ -> failwith "srv") (String.split_on_char ';' srvs) in
    let kept = filter_raw (bytes_of_hex group) servers in
    let ks = List.sort compare (List.map (fun (k, _) -> hex_of_raw (raw_of_bytes k)) kept) in
    if ks = [] then "-" else String.concat "," ks
  | "conv" :: evs ->
    let es = List.map (fun t -> if t = "C" then Consume else Pub (int_of_string (String.sub t 1 (String.length t - 1)))) evs in
    let s = drun { q = []; applied = Some 0; lastpub = None } es in
    let s' = drain (nat_of_int (List.length s.q)) s in
    (match s'.applied with Some x -> string_of_int x | None -> "none")
  | _ -> "bad"

let show_u64 (x : n) : string =
  match x with
  | N0 -> "0"
  | Npos p -> (let rec go p = match p with XH -> 1L | XO q -> Int64.mul 2L (go q) | XI q -> Int64.add 1L (Int64.mul 2L (go q)) in
               Printf.sprintf "%Lu" (go p))

(* ---------------- C04 / C07: server dispatch ---------------- *)
let c04 (payload : string) : string =
  (* events: R:conn:rid:seq:path:meth:ser:hb:ow:target:codec:dec:h:C  |  D:rid ; names are interned by position *)
  let toks = split_on ' ' payload in
  let b s = (s = "1") in
  let tbl : (int, (string * string * string * string * string * int)) Hashtbl.t = Hashtbl.create 16 in
  (* rid -> (target, codec, dec, h, pathname/methname, C) *)
  let names : (int, string) Hashtbl.t = Hashtbl.create 16 in
  let setsmeta : (int, bool) Hashtbl.t = Hashtbl.create 16 in
  let gate : (int, (string * int)) Hashtbl.t = Hashtbl.create 16 in
  let intern =
    let t : (string, int) Hashtbl.t = Hashtbl.create 16 in
    fun s -> (match Hashtbl.find_opt t s with Some i -> i | None ->
      let i = Hashtbl.length t + 1 in Hashtbl.add t s i; Hashtbl.add names i s; i) in
  let evs = List.map (fun t -> match String.split_on_char ':' t with
    | ["R"; conn; rid; seq; path; meth; ser; hb; ow; target; codec; dec; h; c; rm] ->
      let ridi = int_of_string rid in
      if rm = "1" then Hashtbl.replace setsmeta ridi true;
      Hashtbl.replace tbl ridi (target, codec, dec, h, path ^ "." ^ meth, int_of_string c);
      CRead (nat_of_int (int_of_string conn), nat_of_int ridi,
             { q_seq = n_of_dec seq; q_path = nat_of_int (intern path); q_meth = nat_of_int (intern meth);
               q_ser = n_of_dec ser; q_hb = b hb; q_oneway = b ow; q_args = nat_of_int ridi })
    | ["G"; conn; rid; seq; path; meth; ser; hb; ow; kind; text] ->
      (* a request that the PostReadRequest plugins (kind l) or AuthFunc (kind a) refuse with the given text *)
      let ridi = int_of_string rid in
      Hashtbl.replace tbl ridi ("gate", "1", "1", "r0", path ^ "." ^ meth, 0);
      Hashtbl.replace gate ridi (kind, int_of_string text);
      CRead (nat_of_int (int_of_string conn), nat_of_int ridi,
             { q_seq = n_of_dec seq; q_path = nat_of_int (intern path); q_meth = nat_of_int (intern meth);
               q_ser = n_of_dec ser; q_hb = b hb; q_oneway = b ow; q_args = nat_of_int ridi })
    | ["D"; rid] -> CDone (nat_of_int (int_of_string rid))
    | _ -> failwith ("event " ^ t)) toks in
  let find_req (args : nat) = Hashtbl.find tbl (int_of_nat args) in
  (* the section variables, given pointwise by the case line (keyed by the args id = rid) *)
  let by_pm : (int * int, string) Hashtbl.t = Hashtbl.create 16 in
  List.iter (fun e -> match e with
    | CRead (_, rid, q) -> let (target, _, _, _, _, _) = Hashtbl.find tbl (int_of_nat rid) in
      if target <> "gate" then Hashtbl.replace by_pm (int_of_nat q.q_path, int_of_nat q.q_meth) target
    | _ -> ()) evs;
  let find p m = (match Hashtbl.find_opt by_pm (int_of_nat p, int_of_nat m) with
    | Some "router" -> TRouter | Some "nosvc" -> TNoService | Some "nometh" -> TNoMethod
    | Some "func" -> TFunction | _ -> TMethod) in
  let codec_ok (ser : n) = (int_of_n ser <> 9) in
  let cur_args = ref O in
  let decodable _ (args : nat) = (let (_, _, dec, _, _, _) = find_req args in dec = "1") in
  let handler _ _ (args : nat) = (let (_, _, _, h, _, _) = find_req args in
    let id = nat_of_int (int_of_string (String.sub h 1 (String.length h - 1))) in
    match h.[0] with 'r' -> HReply args | 'f' -> HFail id | 'v' -> HVeto id | _ -> HPanic id) in
  ignore cur_args;
  (* the response metadata the handler sets: one entry (key 1 = "trace-id", value = the request id) *)
  let hmeta _ _ (args : nat) = if Hashtbl.mem setsmeta (int_of_nat args) then [(nat_of_int 1, args)] else [] in
  let refuses k _ _ (args : nat) = (match Hashtbl.find_opt gate (int_of_nat args) with
    | Some (k', t) when k' = k -> Some (nat_of_int t) | _ -> None) in
  let st = (grun find codec_ok decodable handler hmeta (refuses "l") (refuses "a") ginit evs).gbase in
  let show_err e = (match e with
    | None -> "-" | Some (XExact t) -> "text:" ^ string_of_int (int_of_nat t)
    | Some (XPanic v) -> "panic:" ^ string_of_int (int_of_nat v)
    | Some (XPanicExact v) -> "text:" ^ string_of_int (int_of_nat v)
    | Some (XNoService _) -> "nosvc" | Some (XNoMethod _) -> "nometh"
    | Some (XDecode _) -> "decode" | Some (XNoCodec _) -> "nocodec") in
  let show_f (f : sresp) =
    let pl = if f.r_hb then "echo"
      else if f.r_status = SError then "-"
      else (let (_, _, _, _, _, c) = Hashtbl.find tbl (int_of_nat f.r_payload) in
            Printf.sprintf "id%d=%d" (int_of_nat f.r_payload) c) in
    let rm = (match f.r_meta with (_, v) :: _ -> "t" ^ string_of_int (int_of_nat v) | [] -> "-") in
    Printf.sprintf "%s/%s.%s/%d/%s/%s/%s/rm=%s" (show_u64 f.r_seq)
      (Hashtbl.find names (int_of_nat f.r_path)) (Hashtbl.find names (int_of_nat f.r_meth)) (int_of_n f.r_ser)
      (if f.r_status = SError then "error" else "normal") (show_err f.r_err) pl rm in
  let conns = List.sort_uniq compare (List.filter_map (fun e -> match e with CRead (c, _, _) -> Some (int_of_nat c) | _ -> None) evs) in
  let per = List.map (fun c ->
    Printf.sprintf "c%d=[%s]" c (String.concat ";" (List.filter_map (fun (c', f) -> if int_of_nat c' = c then Some (show_f f) else None) st.written))) conns in
  let inv = List.sort compare (List.map (fun ((_, _), a) -> int_of_nat a) st.invoked) in
  Printf.sprintf "%s inv=[%s]" (String.concat " " per) (String.concat "," (List.map string_of_int inv))

(* ---------------- C20: pools ---------------- *)
let c20 (payload : string) : string =
  match split_on ' ' payload with
  | ["fpr"; mn; mx] ->
    (* exhaustive over sizes 0..max+2: change points of (get index, put index) *)
    let pmin = n_of_dec mn and pmax = n_of_dec mx in
    let maxi = int_of_string mx in
    let show o = (match o with None -> "-" | Some i -> string_of_int (int_of_n i)) in
    let buf = Buffer.create 256 in
    let last = ref "" in
    for size = 0 to maxi + 2 do
      let sz = n_of_int size in
      let cur = show (find_get pmin pmax sz) ^ "/" ^ show (find_put pmin pmax sz) in
      if cur <> !last then begin Buffer.add_string buf (Printf.sprintf "%d:%s " size cur); last := cur end
    done;
    let k = int_of_n (last_class pmin pmax) in
    let sizes = List.init (k + 1) (fun i -> string_of_int (int_of_n (class_size pmin pmax (n_of_int i)))) in
    String.trim (Buffer.contents buf) ^ " | classes=" ^ String.concat "," sizes
  | _ -> c04 payload

(* ---------------- C19: what the HTTP front ends build from the headers ---------------- *)
let show_greq (q : greq) : string =
  let kv = List.map (fun (k, v) -> (raw_of_bytes k, raw_of_bytes v)) q.g_meta in
  let kv = List.sort (fun (a, _) (b, _) -> compare a b) kv in
  let b x = if x then 1 else 0 in
  Printf.sprintf "seq=%s hb=%d ow=%d ser=%d comp=%d meta=%s path=%s meth=%s body=%s"
    (show_u64 q.g_seq) (b q.g_hb) (b q.g_oneway) (int_of_n q.g_ser) (int_of_n q.g_comp)
    (String.concat "," (List.map (fun (k, v) -> hex_of_raw k ^ ":" ^ hex_of_raw v) kv))
    (hex_of_raw (raw_of_bytes q.g_path)) (hex_of_raw (raw_of_bytes q.g_meth)) (hex_of_raw (raw_of_bytes q.g_payload))

let front (payload : string) : string =
  let hb = bytes_of_hex in
  (* tokens that start with '+' describe the transport only *)
  match List.filter (fun t -> t = "" || t.[0] <> '+') (split_on ' ' payload) with
  | "conv" :: [id; fhb; fow; ser; comp; meta; auth; path; meth; body] ->
    let h = { h_id = hb id; h_hb = hb fhb; h_oneway = hb fow; h_ser = hb ser; h_comp = hb comp; h_meta = hb meta;
              h_auth = hb auth; h_path = hb path; h_meth = hb meth } in
    (match http_to_req h (hb body) with None -> "err" | Some q -> show_greq q)
  | "gw" :: [id; fhb; fow; ser; comp; meta; auth; path; meth; body; urlpath] ->
    let h = { h_id = hb id; h_hb = hb fhb; h_oneway = hb fow; h_ser = hb ser; h_comp = hb comp; h_meta = hb meta;
              h_auth = hb auth; h_path = hb path; h_meth = hb meth } in
    (match gateway_front h (hb urlpath) (hb body) with None -> "malformed" | Some q -> show_greq q)
  | "jr" :: [meth; meta; auth; params; hasid] ->
    (match jsonrpc_front (hb meth) (hb meta) (hb auth) (hb params) (hasid = "1") with
     | None -> "malformed" | Some q -> show_greq q)
  | _ -> "bad"

(* ---------------- C15 / C19: ingresses ---------------- *)
let stock (payload : string) : string =
  let b c = (c = '1') in
  match split_on ' ' payload with
  | ["stock"; kind; aok; inl; masks] when kind = "wl" || kind = "bl" ->
    let ms = if masks = "-" then [] else List.init (String.length masks) (fun i -> b masks.[i]) in
    let r = if kind = "wl" then whitelist_admits (b aok.[0]) (b inl.[0]) ms else blacklist_admits (b aok.[0]) (b inl.[0]) ms in
    if r then "admit" else "veto"
  | ["stock"; "rate"; cap; n] ->
    String.concat "" (List.map (fun x -> if x then "1" else "0")
      (rate_run (nat_of_int (int_of_string cap)) O (nat_of_int (int_of_string n))))
  | _ -> "bad"

let c15 (payload : string) : string =
  if String.length payload > 6 && String.sub payload 0 6 = "stock " then stock payload else
  if String.length payload > 3 && (String.sub payload 0 3 = "gw " || String.sub payload 0 3 = "jr " || String.sub payload 0 5 = "conv ") then front payload else
  (* ing <ingress> <cfg 4 bits> <token> <hb ow> <malformed> <target> <h> <C> <dec> *)
  match split_on ' ' payload with
  | ["ing"; ing; cfg; tok; flags; mal; target; h; c; dec] ->
    let b ch = (ch = '1') in
    let icfg = { ic_accept_veto = b cfg.[0]; ic_postread = b cfg.[1]; ic_auth = b cfg.[2]; ic_precall = b cfg.[3] } in
    let q = { q_seq = N0; q_path = nat_of_int 1; q_meth = nat_of_int 1; q_ser = n_of_int 1;
              q_hb = b flags.[0]; q_oneway = b flags.[1]; q_args = nat_of_int 1 } in
    let rq = { i_token = (match tok with "missing" -> TokMissing | "wrong" -> TokWrong | _ -> TokRight);
               i_malformed = (mal = "1"); i_q = q } in
    let find _ _ = (match target with "nosvc" -> TNoService | "nometh" -> TNoMethod | "func" -> TFunction | _ -> TMethod) in
    let handler _ _ a = (match h with "r" -> HReply a | "f" -> HFail (nat_of_int 7) | _ -> HPanic (nat_of_int 7)) in
    let res = serve find (fun _ -> true) (fun _ _ -> dec = "1") handler (fun _ _ _ -> [])
        (match ing with "native" -> Native | "gateway" -> Gateway | _ -> JsonRpc) icfg rq in
    let out = (match res.o_out with
      | IResult _ -> "result:" ^ c
      | IError None -> "error:reject"
      | IError (Some (XExact _)) -> (if b cfg.[3] then "error:reject" else "error:text")
      | IError (Some (XPanic _)) -> "error:panic"
      | IError (Some (XPanicExact _)) -> "error:text"
      | IError (Some (XNoService _)) -> "error:nosvc"
      | IError (Some (XNoMethod _)) -> "error:nometh"
      | IError (Some (XDecode _)) -> "error:decode"
      | IError (Some (XNoCodec _)) -> "error:nocodec"
      | IEcho -> "echo" | INothing -> "nothing") in
    Printf.sprintf "%s closed=%s inv=%d" out (if res.o_closed then "1" else "0") (List.length res.o_invoked)
  | _ -> "bad"


(* ---------------- C16: graceful shutdown ---------------- *)
let c16 (payload : string) : string =
  (* R:<id>:<conn>:<kind>:<ow> ... K:<k> ... C:<c> ... A:<label>:<ev>,<ev>,...  (in this order) *)
  let toks = split_on ' ' payload in
  let reqs : (int, (int * string * bool)) Hashtbl.t = Hashtbl.create 16 in
  let rids = ref [] and ks = ref [] and cs = ref [] in
  let info (r : nat) : rinfo =
    match Hashtbl.find_opt reqs (int_of_nat r) with
    | Some (c, k, ow) ->
      { r_conn = nat_of_int c;
        r_kind = (match k with "n" -> KNormal | "h" -> KHeartbeat | "l" -> KLimit | "a" -> KAuthFail | _ -> KReject);
        r_oneway0 = ow }
    | None -> { r_conn = nat_of_int 0; r_kind = KNormal; r_oneway0 = false } in
  let ev_of (t : string) : event0 =
    let k = String.sub t 0 2 in
    let a () = nat_of_int (int_of_string (String.sub t 2 (String.length t - 2))) in
    match k with
    | "ac" -> EAccept (a ()) | "sv" -> EServe (a ()) | "tp" -> ETop (a ()) | "ar" -> EArrive (a ())
    | "rd" -> ERead (a ()) | "re" -> EReadErr0 (a ()) | "pc" -> EPeerClose (a ()) | "di" -> EDispatch (a ())
    | "en" -> EEnter (a ()) | "st" -> EStart (a ()) | "fi" -> EFinish (a ()) | "wr" -> EWrite (a ())
    | "ex" -> EExit (a ()) | "wd" -> EWaitDone (a ()) | "sb" -> EShutBegin (a ()) | "po" -> EPoll (a ())
    | "dl" -> EDeadline (a ()) | "cc" -> ECloseConns (a ()) | "cl" -> EClose0 | "ae" -> EAcceptErr
    | "sr" -> EServeRet | _ -> failwith ("event " ^ t) in
  (* the highest gate a request in this phase must have reached (see harness/cmd/vh/c16.go) *)
  let level (r : int) (p : phase) : int =
    let (_, k, ow) = Hashtbl.find reqs r in
    match p with
    | PNone | PArrived -> 0
    | PGot -> 1
    | PDropped -> 1
    | PSpawned | PEntered -> 2
    | PRunning -> 3
    | PAnswering -> if ow then 1 else 4
    | PHandled -> if k = "h" then 4 else if ow then 3 else 4
    | PWritten | PExited ->
      (match k with
       | "h" -> 4
       | "n" -> if ow then 3 else 5
       | _ -> if ow then 1 else 5) in
  let snapshot (label : string) (s : st) : string =
    let g = String.concat "," (List.map (fun r -> Printf.sprintf "%d=%d" r (level r (s.ph (nat_of_int r)))) !rids) in
    let d = String.concat "," (List.filter_map (fun r ->
        if s.answered (nat_of_int r) && s.delivered (nat_of_int r) then Some (string_of_int r) else None) !rids) in
    let sh = String.concat "," (List.map (fun k -> Printf.sprintf "%d=%s" k
        (match s.sh (nat_of_int k) with SIdle -> "-" | SWaiting | SClosing _ -> "run" | SDone0 false -> "nil"
                                       | SDone0 true -> "err" | SLost -> "nil")) !ks) in
    let v = (match s.serve0 with LAccepting | LWaitDone -> "run" | LReturned true -> "closed" | LReturned false -> "err") in
    Printf.sprintf "%s:n=%d:g=%s:d=%s:s=%s:v=%s" label (int_of_z s.count) g d sh v in
  let state = ref init0 in
  let out = ref [] in
  List.iter (fun t ->
    match String.split_on_char ':' t with
    | ["R"; id; c; k; ow] -> Hashtbl.replace reqs (int_of_string id) (int_of_string c, k, ow = "1");
      rids := !rids @ [int_of_string id]
    | ["K"; k] -> ks := !ks @ [int_of_string k]
    | ["C"; c] -> cs := !cs @ [int_of_string c]
    | ["A"; label; evs] ->
      let es = List.map ev_of (split_on ',' evs) in
      state := run0 info !state es;
      out := snapshot label !state :: !out
    | _ -> failwith ("token " ^ t)) toks;
  let s = !state in
  let conns = String.concat "," (List.map (fun c ->
      let cn = nat_of_int c in
      Printf.sprintf "%d=%s" c
        (match s.rd cn with
         | RNone -> "r"
         | _ -> if is_open (s.cst cn) then "o" else "c")) !cs) in
  let started = String.concat "," (List.map (fun r -> string_of_int (int_of_nat r)) s.started) in
  String.concat " | " (List.rev !out) ^ Printf.sprintf " | conns=%s:started=%s:closes=%d" conns started (int_of_nat s.closes)


(* ---------------- C08: writers sharing a connection ---------------- *)
let c08 (payload : string) : string =
  (* M;<t>;<hdr hex>;<path hex>;<meth hex>;<meta>;<payload prefix hex>~<n>~<payload suffix hex>  ...  S;<g|w|p><t>,...
     every thread runs Get; Fill; Write; Put (the sites' own programs are checked in Wire/SharedGenProofs.v) *)
  let toks = split_on ' ' payload in
  let msgs : (int, message) Hashtbl.t = Hashtbl.create 16 in
  let sched = ref [] in
  let nowrite = ref [] in   (* threads whose transport write goes to another (dead) connection: Get; Fill; Put *)
  List.iter (fun t ->
    match String.split_on_char ';' t with
    | ["X"; id] -> nowrite := int_of_string id :: !nowrite
    | ["M"; id; h; sp; sm; meta; pl] ->
      let pl = (match String.split_on_char '~' pl with
        | [a; n; b] -> bytes_of_hex a @ List.init (int_of_string n) (fun _ -> n_of_int 0x78) @ bytes_of_hex b
        | _ -> bytes_of_hex pl) in
      Hashtbl.replace msgs (int_of_string id)
        { m_hdr = bytes_of_hex h; m_path = bytes_of_hex sp; m_meth = bytes_of_hex sm; m_meta = parse_meta meta; m_payload = pl }
    | ["S"; ops] ->
      List.iter (fun o ->
        let t = nat_of_int (int_of_string (String.sub o 1 (String.length o - 1))) in
        match o.[0] with
        | 'g' -> sched := (t, O) :: (t, O) :: !sched
        | _ -> sched := (t, O) :: !sched) (split_on ',' ops)
    | _ -> failwith ("token " ^ t)) toks;
  (* a message whose header names a compressor carries the bytes its compressor produced (the harness ran it) *)
  let env = (fun _ -> Some { c_zip = (fun x -> Some x); c_unzip = (fun _ -> None) }) in
  let empty = { m_hdr = bytes_of_hex "080000000000000000000000"; m_path = []; m_meth = []; m_meta = []; m_payload = [] } in
  let msg (t : nat) = (match Hashtbl.find_opt msgs (int_of_nat t) with Some m -> m | None -> empty) in
  let s = wrun env msg (fun t -> if List.mem (int_of_nat t) !nowrite then [OGet; OFill; OPut] else [OGet; OFill; OWrite; OPut])
      (List.rev !sched) in
  let frames = String.concat "," (List.map (fun t ->
      let m = msg t in
      let l = int_of_n (encode_len env m) in
      let fb = raw_of_bytes (encode_pooled env (List.init l (fun _ -> N0)) m) in
      Printf.sprintf "%d:%s" (int_of_nat t) (Digest.to_hex (Digest.string fb))) s.wlog) in
  let st = raw_of_bytes s.stream in
  Printf.sprintf "frames=%s stream=%d:%s" frames (String.length st) (Digest.to_hex (Digest.string st))


(* ---------------- C09: end-to-end data path ---------------- *)
let c09 (payload : string) : string =
  (* e2e <ser> <ct> <seq> <ow> <path> <meth> <reqmeta (wire order)> <args enc> <zip(args) or -> <tap 0|1>
         <reply enc> <resmeta (wire order)> <zip(reply) or ->
     codecs are the identity on byte strings (the harness supplies the real codec's output); the compressor
     returns what was observed on the wire (checked by the harness to unzip to the encoded bytes) *)
  let pl s = (match String.split_on_char '~' s with
      | [a; n; b] -> bytes_of_hex a @ List.init (int_of_string n) (fun _ -> n_of_int 0x78) @ bytes_of_hex b
      | _ -> bytes_of_hex s) in
  let show_meta_sorted kvs =
    let l = List.map (fun (k, v) -> (raw_of_bytes k, raw_of_bytes v)) kvs in
    let l = List.sort compare l in
    String.concat "," (List.map (fun (k, v) -> hex_of_raw k ^ ":" ^ hex_of_raw v) l) in
  let md5b b = let r = raw_of_bytes b in Printf.sprintf "%d:%s" (String.length r) (Digest.to_hex (Digest.string r)) in
  match split_on ' ' payload with
  | ["e2e"; ser; ct; seq; ow; path; meth; reqmeta; args; zipreq; tap; reply; resmeta; zipres] ->
    let cenc _ v = Some v and cdec _ b = Some b in
    let args = pl args and reply = pl reply in
    let k = { k_ser = n_of_dec ser; k_ct = n_of_dec ct; k_seq = n_of_dec seq; k_path = bytes_of_hex path;
              k_meth = bytes_of_hex meth; k_meta = parse_meta reqmeta; k_args = args; k_oneway = (ow = "1") } in
    let env_of z = (fun (_ : n) -> if z = "-" then None
                     else Some { c_zip = (fun _ -> Some (bytes_of_hex z)); c_unzip = (fun _ -> None) }) in
    let frame_of env m =
      let l = int_of_n (encode_len env m) in
      encode_pooled env (List.init l (fun _ -> N0)) m in
    (match client_req cenc k with
     | None -> "req=unencodable"
     | Some req ->
       let (ha, hm) = handler_view cdec req in
       let hview = Printf.sprintf "hview=%s|%s" (match ha with Some a -> md5b a | None -> "undecodable") (show_meta_sorted hm) in
       let reqs = if tap = "1" then Printf.sprintf "req=%s:%s " (show_bytes req.m_hdr) (md5b (frame_of (env_of zipreq) req)) else "" in
       if ow = "1" then reqs ^ hview else
       (match server_res cenc req reply (parse_meta resmeta) with
        | None -> reqs ^ hview ^ " res=unencodable"
        | Some res ->
          let (ca, cm) = caller_view cdec [] res in
          let cview = Printf.sprintf "cview=%s|%s" (match ca with Some a -> md5b a | None -> "undecodable") (show_meta_sorted cm) in
          let ress = if tap = "1" then Printf.sprintf " res=%s:%s" (show_bytes res.m_hdr) (md5b (frame_of (env_of zipres) res)) else "" in
          reqs ^ hview ^ ress ^ " " ^ cview))
  | _ -> "bad"

let () =
  let prop = Sys.argv.(1) in
  let f = match prop with
    | "C12" -> c12
    | "C09" -> c09
    | "C08" -> c08
    | "C16" -> c16
    | "C15" | "C19" -> c15
    | "C20" -> c20
    | "C04" | "C07" -> c04
    | "C14" -> c14
    | "C17" -> c17
    | "C10" -> c10
    | "C03" | "C05" | "C06" -> csm
    | "C18" -> c18
    | "C11" -> c11
    | "C13" -> c13
    | "C01" -> c01
    | "C02" -> c02
    | _ -> failwith ("unknown property " ^ prop) in
  try
    while true do
      let line = input_line stdin in
      match String.index_opt line '\t' with
      | None -> ()
      | Some k ->
        let id = String.sub line 0 k in
        let payload = String.sub line (k + 1) (String.length line - k - 1) in
        let r = try f payload with e -> "EXC:" ^ Printexc.to_string e in
        print_string id; print_char '\t'; print_endline r
    done
  with End_of_file -> ()
