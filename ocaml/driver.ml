(* Line-oriented driver: reads "<id>\t<case>" lines on stdin, prints "<id>\t<model result>".
   Usage: driver <property>.  Parsing/printing only; all logic is in the extracted Model. *)
open Model
open Conv

let c12 (payload : string) : string =
  match split_on ' ' payload with
  | [] -> "bad"
  | kind :: toks ->
    let out_ids = ref [] in (* ids of the current slice, for mapping indices back *)
    ignore out_ids;
    (* Each update gives the ids in slice order; the model works on slice indices.  We run the
       model op by op so that each selected index is mapped through the slice current then. *)
    let res = Buffer.create 64 in
    let emit ids (r : nat option) =
      (match r with
       | None -> Buffer.add_string res "-"
       | Some i -> Buffer.add_string res (List.nth ids (int_of_nat i)));
      Buffer.add_char res ' ' in
    if kind = "rr" then begin
      let st = ref (rr_new []) and ids = ref [] in
      List.iter (fun t ->
        if t = "S" then begin
          let (s', outs) = rr_run !st [RRSelect] in
          st := s'; List.iter (emit !ids) outs
        end else begin
          let body = String.sub t 2 (String.length t - 2) in
          ids := split_on ',' body;
          let idx = List.mapi (fun i _ -> nat_of_int i) !ids in
          let (s', _) = rr_run !st [RRUpdate idx] in st := s'
        end) toks
    end else begin
      let st = ref (wrr_new []) and ids = ref [] in
      List.iter (fun t ->
        if t = "S" then begin
          let (s', outs) = wrr_run !st [WSelect] in
          st := s'; List.iter (emit !ids) outs
        end else begin
          let body = String.sub t 2 (String.length t - 2) in
          let ents = List.map (fun e -> match String.split_on_char '=' e with
              | [a; b] -> (a, b) | _ -> failwith "bad entry") (split_on ',' body) in
          ids := List.map fst ents;
          let ws = List.map (fun (_, w) -> if w = "x" then None else Some (z_of_int (int_of_string w))) ents in
          let (s', _) = wrr_run !st [WUpdate ws] in st := s'
        end) toks
    end;
    String.trim (Buffer.contents res)

let () =
  let prop = Sys.argv.(1) in
  let f = match prop with
    | "C12" -> c12
    | _ -> failwith ("unknown property " ^ prop) in
  try
    while true do
      let line = input_line stdin in
      match String.index_opt line '\t' with
      | None -> ()
      | Some k ->
        let id = String.sub line 0 k in
        let payload = String.sub line (k + 1) (String.length line - k - 1) in
        let r = try f payload with e -> "EXC:" ^ Printexc.to_string e in
        print_string id; print_char '\t'; print_endline r
    done
  with End_of_file -> ()
