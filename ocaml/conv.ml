(* Conversions between OCaml values and the extracted Coq datatypes.  No model logic here. *)
open Model

let rec nat_of_int (n : int) : nat = if n <= 0 then O else S (nat_of_int (n - 1))
let rec int_of_nat (n : nat) : int = match n with O -> 0 | S m -> 1 + int_of_nat m

let rec pos_of_int (n : int) : positive =
  if n <= 1 then XH
  else if n land 1 = 0 then XO (pos_of_int (n lsr 1)) else XI (pos_of_int (n lsr 1))

let z_of_int (n : int) : z =
  if n = 0 then Z0 else if n > 0 then Zpos (pos_of_int n) else Zneg (pos_of_int (-n))

let rec int_of_pos (p : positive) : int =
  match p with XH -> 1 | XO q -> 2 * int_of_pos q | XI q -> 2 * int_of_pos q + 1

let int_of_z (x : z) : int =
  match x with Z0 -> 0 | Zpos p -> int_of_pos p | Zneg p -> - (int_of_pos p)

let split_on c s = if s = "" then [] else String.split_on_char c s

(* ---- bytes ---- *)
let rec n_of_int (n : int) : n = if n = 0 then N0 else Npos (pos_of_int n)
let int_of_n (x : n) : int = match x with N0 -> 0 | Npos p -> int_of_pos p

let hexval c = match c with
  | '0'..'9' -> Char.code c - 48 | 'a'..'f' -> Char.code c - 87 | 'A'..'F' -> Char.code c - 55
  | _ -> failwith "hex"

(* "-" is the empty string *)
let bytes_of_hex (s : string) : n list =
  if s = "-" || s = "" then [] else begin
    let len = String.length s / 2 in
    let rec go i acc = if i < 0 then acc
      else go (i - 1) (n_of_int (hexval s.[2*i] * 16 + hexval s.[2*i+1]) :: acc) in
    go (len - 1) []
  end

let raw_of_bytes (l : n list) : string =
  let b = Buffer.create 64 in
  List.iter (fun x -> Buffer.add_char b (Char.chr ((int_of_n x) land 255))) l; Buffer.contents b

let hex_of_raw (s : string) : string =
  if s = "" then "-" else begin
    let b = Buffer.create (2 * String.length s) in
    String.iter (fun c -> Buffer.add_string b (Printf.sprintf "%02x" (Char.code c))) s; Buffer.contents b
  end

(* printable form: hex, or #len:md5 when long *)
let show_raw (s : string) : string =
  if String.length s <= 64 then hex_of_raw s
  else Printf.sprintf "#%d:%s" (String.length s) (Digest.to_hex (Digest.string s))
let show_bytes (l : n list) : string = show_raw (raw_of_bytes l)

(* decimal string -> N (up to 2^64) *)
let n_of_dec (s : string) : n =
  (* via Z arithmetic on the extracted type would need more exports; do it bitwise on OCaml's
     arbitrary-precision-free ints by splitting: values < 2^62 fit an int *)
  let v = Int64.of_string ("0u" ^ s) in
  let rec pos_of_i64 (x : int64) : positive =
    if Int64.equal x 1L then XH
    else if Int64.equal (Int64.logand x 1L) 0L then XO (pos_of_i64 (Int64.shift_right_logical x 1))
    else XI (pos_of_i64 (Int64.shift_right_logical x 1)) in
  if Int64.equal v 0L then N0 else Npos (pos_of_i64 v)

(* decimal string (possibly negative, up to 2^64) -> Z *)
let z_of_dec (s : string) : z =
  if String.length s > 0 && s.[0] = '-' then
    (match n_of_dec (String.sub s 1 (String.length s - 1)) with N0 -> Z0 | Npos p -> Zneg p)
  else (match n_of_dec s with N0 -> Z0 | Npos p -> Zpos p)
