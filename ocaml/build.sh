#!/bin/sh
# Re-extract the model and build the driver.  Run from anywhere.
set -e
cd "$(dirname "$0")"
mkdir -p gen
( cd gen && coqc -Q ../../coq RPCX ../../coq/Extract/Extract.v >/dev/null )
ocamlfind ocamlopt -w -a -I gen gen/model.mli gen/model.ml conv.ml driver.ml -o driver 2>&1
