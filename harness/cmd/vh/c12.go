package main

import (
	"os"
	"path/filepath"
	"github.com/smallnest/rpcx/protocol"
	"sync/atomic"
	"sync"
	"context"
	"fmt"
	"net/url"
	"strconv"
	"strings"
	"time"

	"github.com/smallnest/rpcx/client"

	"verifharness/internal/common"
)

func init() { props["C12"] = runC12 }

// weight metadata grammar: valid, zero, negative, malformed, repeated, undecodable
var weightMetas = []string{"", "weight=1", "weight=2", "weight=3", "weight=5", "weight=0", "weight=-2",
	"weight=abc", "weight=007", "weight=+4", "weight=1e3", "weight=3&weight=4", "%zz", "weight=", "x=1&weight=6", "weight=2.5"}

// parseWeight is the harness's own reading of "the weight a server announces":
// missing / unparsable = 1 (model input `x`), otherwise the integer.
func parseWeight(meta string) (int, bool) {
	v, err := url.ParseQuery(meta)
	if err != nil {
		return 0, false
	}
	ww := v.Get("weight")
	if ww == "" {
		return 0, false
	}
	w, err := strconv.Atoi(ww)
	if err != nil {
		return 0, false
	}
	return w, true
}

func effWeight(meta string) int {
	w, ok := parseWeight(meta)
	if !ok {
		return 1
	}
	if w < 0 {
		return 0
	}
	return w
}

type c12op struct {
	update  bool
	servers [][2]string // name, meta
	selects int
}

// abstract case:  kind|U:name~meta,name~meta|S:12|U:...|S:5
func c12Encode(kind string, ops []c12op) string {
	var sb strings.Builder
	sb.WriteString(kind)
	for _, op := range ops {
		sb.WriteByte('|')
		if op.update {
			sb.WriteString("U:")
			for i, s := range op.servers {
				if i > 0 {
					sb.WriteByte(',')
				}
				sb.WriteString(s[0] + "~" + url.QueryEscape(s[1]))
			}
		} else {
			fmt.Fprintf(&sb, "S:%d", op.selects)
		}
	}
	return sb.String()
}

func c12Decode(s string) (string, []c12op) {
	parts := strings.Split(s, "|")
	var ops []c12op
	for _, p := range parts[1:] {
		if strings.HasPrefix(p, "U:") {
			op := c12op{update: true}
			if body := p[2:]; body != "" {
				for _, e := range strings.Split(body, ",") {
					kv := strings.SplitN(e, "~", 2)
					m, _ := url.QueryUnescape(kv[1])
					op.servers = append(op.servers, [2]string{kv[0], m})
				}
			}
			ops = append(ops, op)
		} else {
			n, _ := strconv.Atoi(p[2:])
			ops = append(ops, c12op{selects: n})
		}
	}
	return parts[0], ops
}

func c12Run(o *common.Out, id string, kind string, ops []c12op) {
	abstract := c12Encode(kind, ops)
	o.Begin(id, abstract)
	mode := client.RoundRobin
	if kind == "wrr" {
		mode = client.WeightedRoundRobin
	}
	var sel client.Selector
	var model strings.Builder
	model.WriteString(kind)
	var obs []string
	nontrivial := false
	var curMeta map[string]string
	for _, op := range ops {
		if op.update {
			m := map[string]string{}
			for _, s := range op.servers {
				m[s[0]] = s[1]
			}
			curMeta = m
			if sel == nil {
				sel = client.VerifNewSelector(mode, m)
			} else {
				sel.UpdateServer(m)
			}
			order := client.VerifSelectorOrder(sel)
			model.WriteString(" U:")
			for i, name := range order {
				if i > 0 {
					model.WriteByte(',')
				}
				if kind == "wrr" {
					if w, ok := parseWeight(m[name]); ok {
						fmt.Fprintf(&model, "%s=%d", name, w)
					} else {
						fmt.Fprintf(&model, "%s=x", name)
					}
				} else {
					model.WriteString(name)
				}
			}
			continue
		}
		if sel == nil {
			continue
		}
		run := make([]string, 0, op.selects)
		for i := 0; i < op.selects; i++ {
			r := sel.Select(context.Background(), "p", "m", nil)
			if r == "" {
				r = "-"
			}
			run = append(run, r)
			model.WriteString(" S")
		}
		obs = append(obs, run...)
		// ---- property oracle on this run (no update in between) ----
		n := len(curMeta)
		if kind == "rr" {
			if n == 0 {
				for _, r := range run {
					if r != "-" {
						o.Fail(id, "rr-nonempty-from-empty", "selected "+r+" from empty set", abstract)
					}
				}
			} else {
				if len(run) >= n && n >= 2 {
					nontrivial = true
				}
				for off := 0; off+n <= len(run); off++ {
					seen := map[string]int{}
					for _, r := range run[off : off+n] {
						seen[r]++
					}
					for name := range curMeta {
						if seen[name] != 1 {
							o.Fail(id, "rr-window", fmt.Sprintf("window@%d of %d: %s picked %d times", off, n, name, seen[name]), abstract)
							off = len(run)
							break
						}
					}
				}
			}
		} else {
			W := 0
			for _, meta := range curMeta {
				W += effWeight(meta)
			}
			if W == 0 {
				for _, r := range run {
					if r != "-" {
						o.Fail(id, "wrr-nonempty-from-ineligible", "selected "+r+" with total weight 0", abstract)
					}
				}
			} else {
				if len(run) >= W && n >= 2 {
					nontrivial = true
				}
				for off := 0; off+W <= len(run); off++ {
					seen := map[string]int{}
					for _, r := range run[off : off+W] {
						seen[r]++
					}
					bad := false
					for name, meta := range curMeta {
						if seen[name] != effWeight(meta) {
							o.Fail(id, "wrr-window", fmt.Sprintf("window@%d of %d: %s (weight %d) picked %d times", off, W, name, effWeight(meta), seen[name]), abstract)
							bad = true
							break
						}
					}
					if bad {
						break
					}
				}
				// equal weights behave as plain round-robin: every n consecutive picks are distinct
				eq := true
				first := -1
				for _, meta := range curMeta {
					w := effWeight(meta)
					if first == -1 {
						first = w
					} else if w != first {
						eq = false
					}
				}
				if eq && first > 0 {
					for off := 0; off+n <= len(run); off++ {
						seen := map[string]bool{}
						for _, r := range run[off : off+n] {
							seen[r] = true
						}
						if len(seen) != n {
							o.Fail(id, "wrr-equal-not-rr", fmt.Sprintf("equal weights %d: window@%d of %d has repeats", first, off, n), abstract)
							break
						}
					}
				}
			}
		}
	}
	o.Count(kind)
	o.Case(id, model.String(), strings.Join(obs, " "), nontrivial)
}

// the same histories through a discovery client: updates are published by the discovery and reach the selector
// through XClient's watch loop; selections are made by the client's own selector.  Oracle only (the slice order the
// client's selector built is not visible from outside): every window of sum-of-weights selections is proportional.
// a selector that counts the updates it is given
type tapSel struct {
	inner client.Selector
	mu    sync.Mutex
	n     int
}

func (t *tapSel) Select(ctx context.Context, p, m string, a interface{}) string {
	return t.inner.Select(ctx, p, m, a)
}
func (t *tapSel) UpdateServer(servers map[string]string) {
	t.inner.UpdateServer(servers)
	t.mu.Lock()
	t.n++
	t.mu.Unlock()
}
func (t *tapSel) count() int { t.mu.Lock(); defer t.mu.Unlock(); return t.n }

func c12RunX(o *common.Out, id string, kind string, ops []c12op) {
	abstract := "x|" + c12Encode(kind, ops)
	o.Begin(id, abstract)
	mode := client.RoundRobin
	if kind == "wrr" {
		mode = client.WeightedRoundRobin
	}
	pairsOf := func(srv [][2]string) []*client.KVPair {
		var ps []*client.KVPair
		for _, s := range srv {
			ps = append(ps, &client.KVPair{Key: "vsrv@" + s[0], Value: s[1]})
		}
		return ps
	}
	var d *client.MultipleServersDiscovery
	var xc client.XClient
	var tap *tapSel
	var cur map[string]string
	nontrivial := false
	for _, op := range ops {
		if op.update {
			want := map[string]string{}
			for _, s := range op.servers {
				want["vsrv@"+s[0]] = s[1]
			}
			cur = want
			if xc == nil {
				d, _ = client.NewMultipleServersDiscovery(pairsOf(op.servers))
				opt := client.DefaultOption
				opt.Heartbeat = false
				var disc client.ServiceDiscovery = d
				if len(ops)%2 == 0 {
					// every other history: the discovery sits behind the caching wrapper (threshold -1: it never substitutes
					// its cache) - whatever is published passes through
					if dir, err := os.MkdirTemp("", "vh-c12-"); err == nil {
						defer os.RemoveAll(dir)
						disc = client.CacheDiscovery(-1, filepath.Join(dir, "discovery.json"), d)
					}
				}
				xc = client.NewXClient("p", client.Failfast, mode, disc, opt)
				defer xc.Close()
				// the client's own kind of selector behind a tap that counts the updates it is given: an update that
				// announces the set the client already has cannot be told from its server map
				tap = &tapSel{inner: client.VerifNewSelector(mode, want)}
				xc.SetSelector(tap)
			} else {
				before := tap.count()
				publish(d, pairsOf(op.servers), true)
				dl := time.Now().Add(2 * time.Second)
				for tap.count() == before && time.Now().Before(dl) {
					time.Sleep(200 * time.Microsecond)
				}
			}
			// the watch loop applies the update asynchronously: wait until the client's server set is the published one
			deadline := time.Now().Add(3 * time.Second)
			for time.Now().Before(deadline) {
				got := client.VerifXClientServers(xc)
				same := len(got) == len(want)
				for k, v := range want {
					if gv, ok := got[k]; !ok || gv != v {
						same = false
					}
				}
				if same {
					break
				}
				time.Sleep(200 * time.Microsecond)
			}
			continue
		}
		if xc == nil {
			continue
		}
		var run []string
		for i := 0; i < op.selects; i++ {
			run = append(run, client.VerifXClientSelect(xc, "p", "m", nil))
		}
		W, n := 0, len(cur)
		for _, meta := range cur {
			if kind == "wrr" {
				W += effWeight(meta)
			} else {
				W++
			}
		}
		if W == 0 || n < 2 || len(run) < W {
			continue
		}
		nontrivial = true
		for off := 0; off+W <= len(run); off++ {
			seen := map[string]int{}
			for _, r := range run[off : off+W] {
				seen[r]++
			}
			bad := false
			for name, meta := range cur {
				w := 1
				if kind == "wrr" {
					w = effWeight(meta)
				}
				if seen[name] != w {
					o.Fail(id, "xclient-window", fmt.Sprintf("through XClient, after the update was applied: window@%d of %d: %s (weight %d) picked %d times", off, W, name, w, seen[name]), abstract)
					bad = true
					break
				}
			}
			if bad {
				break
			}
		}
	}
	o.Count("via-xclient-" + kind)
	o.ImplOnly(id, abstract, nontrivial)
}

// a select plugin that parks one selection inside the wrapped select function
type parkSelect struct {
	mu      sync.Mutex
	armed   bool
	entered chan struct{}
	release chan struct{}
}

func (p *parkSelect) WrapSelect(fn client.SelectFunc) client.SelectFunc {
	return func(ctx context.Context, sp, sm string, args interface{}) string {
		p.mu.Lock()
		hit := p.armed
		p.armed = false
		p.mu.Unlock()
		if hit {
			close(p.entered)
			<-p.release
		}
		return fn(ctx, sp, sm, args)
	}
}

var c12seq int64

// c12Overlap: two calls of one XClient select at overlapping times (the first is parked inside a select plugin when the
// second starts); over whole windows every server is still picked exactly weight times.  Oracle only (which of the
// two overlapping calls gets which server is not fixed; the counts are).  case: overlap|<kind>|<warm>
func c12Overlap(o *common.Out, id, kind string, warm int) {
	abstract := fmt.Sprintf("overlap|%s|%d", kind, warm)
	o.Begin(id, abstract)
	o.Count("overlapping-selections")
	uid := atomic.AddInt64(&c12seq, 1)
	weights := []int{4, 2, 1}
	mode := client.WeightedRoundRobin
	if kind == "rr" {
		weights = []int{1, 1, 1}
		mode = client.RoundRobin
	}
	W := 0
	log := &attemptLog{}
	var pairs []*client.KVPair
	var addrs []string
	for i, w := range weights {
		W += w
		addr := fmt.Sprintf("c12-%d-s%d", uid, i)
		registerFake(addr, &fakeServer{id: i, fixed: "ok1", log: log})
		addrs = append(addrs, addr)
		meta := ""
		if kind != "rr" {
			meta = fmt.Sprintf("weight=%d", w)
		}
		pairs = append(pairs, &client.KVPair{Key: "vsrv@" + addr, Value: meta})
	}
	defer func() {
		for _, a := range addrs {
			unregisterFake(a)
		}
	}()
	d, _ := client.NewMultipleServersDiscovery(pairs)
	opt := client.DefaultOption
	opt.SerializeType = protocol.JSON
	opt.Heartbeat = false
	xc := client.NewXClient("Svc", client.Failfast, mode, d, opt)
	defer xc.Close()
	ps := &parkSelect{entered: make(chan struct{}), release: make(chan struct{})}
	pc := client.NewPluginContainer()
	pc.Add(ps)
	xc.SetPlugins(pc)
	call := func() error {
		var reply int
		ctx, cancel := context.WithTimeout(context.Background(), 3*time.Second)
		defer cancel()
		return xc.Call(ctx, "M", 1, &reply)
	}
	rounds := (warm + 2 + W - 1) / W
	if rounds < 2 {
		rounds = 2
	}
	total := rounds * W
	done := 0
	for ; done < warm; done++ {
		if err := call(); err != nil {
			o.Fail(id, "rig", "warm-up call failed: "+err.Error(), abstract)
			return
		}
	}
	ps.mu.Lock()
	ps.armed = true
	ps.mu.Unlock()
	r1, r2 := make(chan error, 1), make(chan error, 1)
	go func() { r1 <- call() }()
	select {
	case <-ps.entered:
	case <-time.After(3 * time.Second):
		o.Fail(id, "rig", "the first call never reached the select plugin", abstract)
		close(ps.release)
		return
	}
	go func() { r2 <- call() }()
	var e2 error
	got2 := false
	select { // the second call runs as far as it can: to its end, or to the lock the first selection holds
	case e2 = <-r2:
		got2 = true
	case <-time.After(40 * time.Millisecond):
	}
	close(ps.release)
	e1 := <-r1
	if !got2 {
		e2 = <-r2
	}
	if e1 != nil || e2 != nil {
		o.Fail(id, "rig", fmt.Sprintf("the overlapping calls failed: %v / %v", e1, e2), abstract)
		return
	}
	for done += 2; done < total; done++ {
		if err := call(); err != nil {
			o.Fail(id, "rig", "call failed: "+err.Error(), abstract)
			return
		}
	}
	counts := make([]int, len(weights))
	att := log.snapshot()
	for _, a := range att {
		var sid int
		fmt.Sscanf(a, "s%d:", &sid)
		if sid >= 0 && sid < len(counts) {
			counts[sid]++
		}
	}
	for i, w := range weights {
		if counts[i] != rounds*w {
			o.Fail(id, "xclient-window", fmt.Sprintf("%d calls (two of them selecting at overlapping times) over servers of weights %v were served %v times; every server must be picked %d times its weight (arrival order %v)", total, weights, counts, rounds, att), abstract)
			break
		}
	}
	o.ImplOnly(id, abstract, true)
}

func runC12(r *common.Rand, tier string, o *common.Out, replay string) {
	if strings.HasPrefix(replay, "overlap|") {
		p := strings.Split(replay, "|")
		w, _ := strconv.Atoi(p[2])
		c12Overlap(o, "replay", p[1], w)
		return
	}
	if replay == "" {
		k := 0
		for _, kind := range []string{"wrr", "rr"} {
			for _, warm := range []int{0, 1, 3, 5} {
				k++
				c12Overlap(o, fmt.Sprintf("ovl%d", k), kind, warm)
			}
		}
	}
	if replay != "" {
		if strings.HasPrefix(replay, "x|") {
			kind, ops := c12Decode(replay[2:])
			c12RunX(o, "replay", kind, ops)
			return
		}
		kind, ops := c12Decode(replay)
		c12Run(o, "replay", kind, ops)
		return
	}
	names := []string{"a", "b", "c", "d", "e", "f", "g", "h"}
	id := 0
	next := func() string { id++; return fmt.Sprintf("c%d", id) }
	// exhaustive small scope: n<=4, weights 0..6 (thorough) / n<=3, weights 0..4 + n=4, weights 0..2 (quick)
	maxW := map[int]int{1: 6, 2: 6, 3: 4, 4: 2}
	if tier == "thorough" {
		maxW = map[int]int{1: 6, 2: 6, 3: 6, 4: 6}
	}
	for n := 1; n <= 4; n++ {
		mw := maxW[n]
		total := 1
		for i := 0; i < n; i++ {
			total *= mw + 1
		}
		for v := 0; v < total; v++ {
			x := v
			var srv [][2]string
			W := 0
			for i := 0; i < n; i++ {
				w := x % (mw + 1)
				x /= mw + 1
				W += w
				srv = append(srv, [2]string{names[i], fmt.Sprintf("weight=%d", w)})
			}
			off := r.Intn(W + 1)
			c12Run(o, next(), "wrr", []c12op{{update: true, servers: srv}, {selects: off}, {selects: 3*W + 1}})
			o.Count("exhaustive-weight-vector")
		}
	}
	// weights in the thousands next to small ones (a ring of several thousand slots): every window is still exact
	for _, ws := range [][]int{{4095, 1}, {4096, 1}, {5000, 3, 1}, {2048, 2047, 2}, {1, 6000}} {
		var srv [][2]string
		W := 0
		for i, w := range ws {
			W += w
			srv = append(srv, [2]string{names[i], fmt.Sprintf("weight=%d", w)})
		}
		c12Run(o, next(), "wrr", []c12op{{update: true, servers: srv}, {selects: r.Intn(W)}, {selects: 2*W + 3}})
		o.Count("large-weights")
	}
	for n := 0; n <= 8; n++ {
		var srv [][2]string
		for i := 0; i < n; i++ {
			srv = append(srv, [2]string{names[i], ""})
		}
		for off := 0; off <= n; off++ {
			c12Run(o, next(), "rr", []c12op{{update: true, servers: srv}, {selects: off}, {selects: 3*n + 1}})
		}
	}
	// equal weights above 1 across membership changes that change nobody's weight: servers join and leave, the ones
	// that stay are announced unchanged; after every update the selector must behave as plain round-robin
	for w := 2; w <= 4; w++ {
		for n0 := 1; n0 <= 4; n0++ {
			for join := 0; join <= 2; join++ {
				for leave := 0; leave <= 1 && leave < n0; leave++ {
					if join == 0 && leave == 0 {
						continue
					}
					meta := fmt.Sprintf("weight=%d", w)
					var first, second [][2]string
					for i := 0; i < n0; i++ {
						first = append(first, [2]string{names[i], meta})
						if i >= leave {
							second = append(second, [2]string{names[i], meta})
						}
					}
					for j := 0; j < join; j++ {
						second = append(second, [2]string{names[n0+j], meta})
					}
					off := r.Intn(w*n0 + 1)
					c12Run(o, next(), "wrr", []c12op{{update: true, servers: first}, {selects: off}, {update: true, servers: second},
						{selects: 3*w*len(second) + 1}})
					o.Count("equal-weights-membership-change")
				}
			}
		}
	}
	// random histories: updates changing membership and weights, interleaved with selection runs
	nh := 300
	if tier == "thorough" {
		nh = 6000
	}
	for h := 0; h < nh; h++ {
		kind := "rr"
		if r.Chance(65) {
			kind = "wrr"
		}
		var ops []c12op
		var prevSrv [][2]string
		steps := 1 + r.Intn(5)
		for s := 0; s < steps; s++ {
			n := r.Intn(7)
			if r.Chance(10) {
				n = 0
			}
			perm := append([]string(nil), names...)
			for i := range perm {
				j := i + r.Intn(len(perm)-i)
				perm[i], perm[j] = perm[j], perm[i]
			}
			var srv [][2]string
			W := 0
			if s > 0 && len(prevSrv) > 0 && r.Chance(40) {
				// the same servers are announced again; only the metadata of some of them changes: a weight is
				// changed, dropped, left empty or made unreadable (then the server weighs 1 again)
				n = 0
				for _, ps := range prevSrv {
					meta := ps[1]
					if kind == "wrr" && r.Chance(50) {
						meta = []string{"", "weight=", "weight=abc", "x=1", fmt.Sprintf("weight=%d", r.Intn(6)), "weight=1"}[r.Intn(6)]
					}
					W += effWeight(meta)
					srv = append(srv, [2]string{ps[0], meta})
				}
			}
			for i := 0; i < n; i++ {
				meta := ""
				if kind == "wrr" {
					if r.Chance(60) {
						meta = fmt.Sprintf("weight=%d", r.Intn(9))
					} else {
						meta = weightMetas[r.Intn(len(weightMetas))]
					}
					if effWeight(meta) > 50 {
						meta = "weight=7"
					}
				}
				W += effWeight(meta)
				srv = append(srv, [2]string{perm[i], meta})
			}
			ops = append(ops, c12op{update: true, servers: srv})
			prevSrv = srv
			if kind == "rr" {
				W = len(srv)
			}
			nruns := 1 + r.Intn(2)
			for k := 0; k < nruns; k++ {
				ops = append(ops, c12op{selects: r.Intn(2*W + 3)})
			}
		}
		c12Run(o, next(), kind, ops)
		o.Count("random-history")
		if h%4 == 0 {
			c12RunX(o, next(), kind, ops)
		}
	}
	// weight-only and membership-only updates through the discovery client
	for i := 0; i < 12; i++ {
		a := [][2]string{{"a", fmt.Sprintf("weight=%d", 1+i%4)}, {"b", "weight=2"}, {"c", fmt.Sprintf("weight=%d", 1+(i/4))}}
		b := [][2]string{{"a", fmt.Sprintf("weight=%d", 1+(i+1)%4)}, {"b", "weight=2"}, {"c", fmt.Sprintf("weight=%d", 4-(i/4))}}
		c12RunX(o, next(), "wrr", []c12op{{update: true, servers: a}, {selects: 9}, {update: true, servers: b}, {selects: 30}})
	}
	// a weight becomes unreadable (the server weighs 1) and is repaired by a later update that changes nothing else: the
	// repaired weight is honoured from the next selection on
	for i, broken := range []string{"weight=3x", "weight=3&zone=%zz", "weight=", "weight=abc", ""} {
		for _, w := range []int{3, 5} {
			good := [][2]string{{"a", fmt.Sprintf("weight=%d", w)}, {"b", "weight=2"}, {"c", "weight=1"}}
			bad := [][2]string{{"a", strings.Replace(broken, "3", strconv.Itoa(w), 1)}, {"b", "weight=2"}, {"c", "weight=1"}}
			ops := []c12op{{update: true, servers: good}, {selects: 2*w + 7}, {update: true, servers: bad}, {selects: 9 + i},
				{update: true, servers: good}, {selects: 3 * (w + 3)}, {update: true, servers: good}, {selects: w + 4}}
			c12Run(o, next(), "wrr", ops)
			c12RunX(o, next(), "wrr", ops)
			o.Count("weight-broken-then-repaired")
		}
	}
	// the weight createWeighted derives from a server's raw metadata, against the model's own parse of the string
	wg := []string{"weight=3", "weight=0", "weight=-2", "weight=+4", "weight=007", "weight=1e3", "weight=abc", "weight=", "", "weight=2&weight=5",
		"w%65ight=6", "weight=%34", "weight=9223372036854775807", "weight=9223372036854775808", "x=1;weight=3", "weight=3;x", "%zz&weight=4",
		"weight=4&%zz", "state=inactive&weight=2", "weight=1+1", "Weight=5", "weight =5", "a=b&weight=8&c", "&&weight=9&", "weight=-0", "weight=%2D3",
		"weight=12&weight=x", "weight", "=weight", "weight=3%", "weight=٣"}
	nw := 150
	if tier == "thorough" {
		nw = 5000
	}
	for i := 0; i < nw; i++ {
		m := map[string]string{}
		var spec []string
		for k := 0; k < 1+r.Intn(5); k++ {
			meta := wg[r.Intn(len(wg))]
			if r.Chance(15) {
				meta = meta + "&" + wg[r.Intn(len(wg))]
			}
			name := names[k]
			m[name] = meta
			spec = append(spec, name+"~"+hx([]byte(meta)))
		}
		id := next()
		line := "wraw " + strings.Join(spec, ";")
		o.Begin(id, line)
		got := client.VerifCreateWeighted(m)
		var obs []string
		for k := 0; k < len(spec); k++ {
			obs = append(obs, fmt.Sprintf("%s=%d", names[k], got[names[k]]))
		}
		o.Case(id, line, strings.Join(obs, ","), true)
		o.Count("weight-from-metadata")
	}
}
