package main

// Rig for the real server (server.Server): an in-memory listener (ServeListener over net.Pipe, so
// no port multiplexer), raw peers that speak the wire protocol through refcodec, and test services
// in the three dispatch styles (reflected method, registered function, router handler) whose
// handlers are gated so that completion order is forced by the schedule.

import (
	"bufio"
	"context"
	"encoding/binary"
	"encoding/json"
	"errors"
	"fmt"
	"io"
	"net"
	"sort"
	"strconv"
	"strings"
	"sync"
	"time"
	"unsafe"

	"github.com/smallnest/rpcx/client"
	"github.com/smallnest/rpcx/protocol"
	"github.com/smallnest/rpcx/server"
	"github.com/smallnest/rpcx/share"

	"verifharness/internal/refcodec"
)

// ---------- in-memory listener ----------
type pipeListener struct {
	ch     chan net.Conn
	closed chan struct{}
	once   sync.Once
	wrap   func(net.Conn) net.Conn // when set: wraps the server's end of every connection
}

// holdConn: the server's end of a connection whose writes can be held back by the harness, the way a full socket
// buffer holds back a writer: Write has been called with the caller's bytes, but they have not been taken yet.
type holdConn struct {
	net.Conn
	mu      sync.Mutex
	holding bool
	arrived chan int      // one entry per held write: its length
	release chan struct{} // one token lets one held write through
}

func newHoldConn(c net.Conn) *holdConn {
	return &holdConn{Conn: c, arrived: make(chan int, 64), release: make(chan struct{}, 64)}
}
func (h *holdConn) hold(on bool) { h.mu.Lock(); h.holding = on; h.mu.Unlock() }
func (h *holdConn) Write(b []byte) (int, error) {
	h.mu.Lock()
	on := h.holding
	h.mu.Unlock()
	if on {
		h.arrived <- len(b)
		<-h.release
	}
	return h.Conn.Write(b)
}

func newPipeListener() *pipeListener {
	return &pipeListener{ch: make(chan net.Conn, 16), closed: make(chan struct{})}
}
func (l *pipeListener) Accept() (net.Conn, error) {
	select {
	case c := <-l.ch:
		return c, nil
	case <-l.closed:
		return nil, errors.New("pipe listener closed")
	}
}
func (l *pipeListener) Close() error   { l.once.Do(func() { close(l.closed) }); return nil }
func (l *pipeListener) Addr() net.Addr { return simAddr{} }
func (l *pipeListener) dial() (net.Conn, error) {
	select {
	case <-l.closed:
		return nil, errors.New("connection refused: listener closed")
	default:
	}
	a, b := net.Pipe()
	if l.wrap != nil {
		b = l.wrap(b)
	}
	select {
	case l.ch <- b:
		return a, nil
	case <-l.closed:
		return nil, errors.New("connection refused: listener closed")
	}
}

// ---------- test services ----------
type SArgs struct {
	Id   int    `json:"Id"`
	A    int    `json:"A"`
	B    int    `json:"B"`
	Mode string `json:"Mode"`
	Text string `json:"Text"`
}
type SReply struct {
	Id   int    `json:"Id"`
	C    int    `json:"C"`
	Meta string `json:"Meta,omitempty"` // the request metadata the handler saw (without reserved keys)
}

// pooled variants (implement server.Reset)
type PArgs struct {
	Id   int    `json:"Id"`
	A    int    `json:"A"`
	B    int    `json:"B"`
	Mode string `json:"Mode"`
	Text string `json:"Text"`
}

func (a *PArgs) Reset() { *a = PArgs{} }

type PReply struct {
	Id   int    `json:"Id"`
	C    int    `json:"C"`
	Meta string `json:"Meta,omitempty"`
}

func (r *PReply) Reset() { *r = PReply{} }

type handlerEnv struct {
	mu       sync.Mutex
	gated    bool
	gates    map[int]chan struct{}
	entered  chan int // ids of handlers that started
	finished chan int
	invoked  []int
	owners   map[unsafe.Pointer]int
	shared   []string
	meta     map[int]map[string]string
}

func newHandlerEnv(gated bool) *handlerEnv {
	return &handlerEnv{gated: gated, gates: map[int]chan struct{}{}, entered: make(chan int, 256), finished: make(chan int, 256),
		meta: map[int]map[string]string{}}
}

func (h *handlerEnv) gate(id int) chan struct{} {
	h.mu.Lock()
	defer h.mu.Unlock()
	g := h.gates[id]
	if g == nil {
		g = make(chan struct{})
		h.gates[id] = g
	}
	return g
}

func (h *handlerEnv) release(id int) {
	g := h.gate(id)
	select {
	case <-g:
	default:
		close(g)
	}
}

// the common handler body: returns (C, error) and may panic
func (h *handlerEnv) note(id int) {
	h.mu.Lock()
	h.invoked = append(h.invoked, id)
	h.mu.Unlock()
}

func (h *handlerEnv) run(id, a, b int, mode, text string) (int, error) {
	return h.run2(id, a, b, mode, text, true)
}

func (h *handlerEnv) run2(id, a, b int, mode, text string, log bool) (int, error) {
	if log {
		h.note(id)
	}
	h.entered <- id
	if h.gated {
		<-h.gate(id)
	}
	defer func() { h.finished <- id }()
	switch mode {
	case "err":
		return 0, errors.New(text)
	case "panic":
		panic(text)
	}
	return a * b, nil
}

type Arith struct{ h *handlerEnv }

// seenMeta: the request metadata visible to a handler, reserved keys removed, canonical order;
// it also sets one response metadata entry
func seenMeta(ctx context.Context, id int) string {
	var parts []string
	if m, ok := ctx.Value(share.ReqMetaDataKey).(map[string]string); ok {
		for k, v := range m {
			if strings.HasPrefix(k, "__") || k == "rid" {
				continue
			}
			parts = append(parts, k+"="+v)
		}
	}
	sort.Strings(parts)
	if rm, ok := ctx.Value(share.ResMetaDataKey).(map[string]string); ok && rm != nil {
		rm["resp-id"] = strconv.Itoa(id)
		// every other request gets what it sent under k0 / k1 passed back unchanged (a trace or tenant id handed through)
		if m, ok := ctx.Value(share.ReqMetaDataKey).(map[string]string); ok && id%2 == 1 {
			for _, k := range []string{"k0", "k1"} {
				if v, has := m[k]; has {
					rm[k] = v
				}
			}
		}
	}
	return strings.Join(parts, "&")
}

// a handler may set response metadata before it fails: the failure must still be reported faithfully
func touchResMeta(ctx context.Context, id int) {
	if rm, ok := ctx.Value(share.ResMetaDataKey).(map[string]string); ok && rm != nil && id%2 == 0 {
		rm["trace-id"] = "t" + strconv.Itoa(id)
	}
}

func (t *Arith) Mul(ctx context.Context, a *SArgs, r *SReply) error {
	touchResMeta(ctx, a.Id)
	c, err := t.h.run(a.Id, a.A, a.B, a.Mode, a.Text)
	if err != nil {
		return err
	}
	r.Id, r.C = a.Id, c
	r.Meta = seenMeta(ctx, a.Id)
	return nil
}

type ArithP struct{ h *handlerEnv }

func (t *ArithP) Mul(ctx context.Context, a *PArgs, r *PReply) error {
	// pooled objects: must arrive clean and must be owned by this request alone while it runs
	id := a.Id
	touchResMeta(ctx, id)
	if *r != (PReply{}) {
		return fmt.Errorf("dirty-reply-object %+v", *r)
	}
	t.h.own(id, unsafe.Pointer(a), unsafe.Pointer(r))
	defer t.h.disown(unsafe.Pointer(a), unsafe.Pointer(r))
	r.Id = id // early write: a second owner of the same object would see or clobber it
	c, err := t.h.run(id, a.A, a.B, a.Mode, a.Text)
	if r.Id != id || r.C != 0 || a.Id != id {
		return fmt.Errorf("pooled-object-modified-while-in-use reply=%+v args.Id=%d want Id=%d", *r, a.Id, id)
	}
	if err != nil {
		r.Id = 0
		return err
	}
	r.C = c
	return nil
}

// ArithV takes its argument by value (the pointer type implements Reset, so the server pools the object)
type ArithV struct{ h *handlerEnv }

func (t *ArithV) Mul(ctx context.Context, a PArgs, r *PReply) error {
	touchResMeta(ctx, a.Id)
	if *r != (PReply{}) {
		return fmt.Errorf("dirty-reply-object %+v", *r)
	}
	c, err := t.h.run(a.Id, a.A, a.B, a.Mode, a.Text)
	if err != nil {
		return err
	}
	r.Id, r.C = a.Id, c
	return nil
}

// ownership of pooled objects by in-flight requests
func (h *handlerEnv) own(id int, ptrs ...unsafe.Pointer) {
	h.mu.Lock()
	defer h.mu.Unlock()
	if h.owners == nil {
		h.owners = map[unsafe.Pointer]int{}
	}
	for _, p := range ptrs {
		if other, ok := h.owners[p]; ok {
			h.shared = append(h.shared, fmt.Sprintf("requests %d and %d hold the same pooled object %p at the same time", other, id, p))
		}
		h.owners[p] = id
	}
}

func (h *handlerEnv) disown(ptrs ...unsafe.Pointer) {
	h.mu.Lock()
	defer h.mu.Unlock()
	for _, p := range ptrs {
		delete(h.owners, p)
	}
}

type srvRig struct {
	srv  *server.Server
	ln   *pipeListener
	h    *handlerEnv
	done chan error
}

// a pre-call plugin that refuses the requests whose arguments say so (Mode "veto"): the request is answered with the
// plugin's error, no handler runs.  It hands the arguments back or not, by the parity of the request id.
const srvVetoText = "refused by the pre-call plugin"

type vetoPlugin struct{}

func (vetoPlugin) PreCall(ctx context.Context, serviceName, methodName string, args interface{}) (interface{}, error) {
	mode, id := "", 0
	switch a := args.(type) {
	case *SArgs:
		mode, id = a.Mode, a.Id
	case *PArgs:
		mode, id = a.Mode, a.Id
	}
	if mode == "veto" {
		if id%2 == 0 {
			return args, errors.New(srvVetoText)
		}
		return nil, errors.New(srvVetoText)
	}
	return args, nil
}

// a PostReadRequest plugin that refuses the requests marked x-limit=1 the way the rate limiters do, and an AuthFunc
// that refuses the token "deny": both are answered by the connection loop itself and never dispatched
const srvAuthText = "auth: token refused"

type limitPlugin struct{}

func (limitPlugin) PostReadRequest(ctx context.Context, r *protocol.Message, e error) error {
	if r != nil && r.Metadata["x-limit"] == "1" {
		return server.ErrReqReachLimit
	}
	return nil
}

func newSrvRig(gated bool, opts ...server.OptionFn) *srvRig {
	r := &srvRig{ln: newPipeListener(), h: newHandlerEnv(gated), done: make(chan error, 1)}
	r.srv = server.NewServer(opts...)
	r.srv.Plugins.Add(vetoPlugin{})
	r.srv.Plugins.Add(limitPlugin{})
	r.srv.AuthFunc = func(ctx context.Context, req *protocol.Message, token string) error {
		if token == "deny" {
			return errors.New(srvAuthText)
		}
		return nil
	}
	r.srv.RegisterName("Arith", &Arith{h: r.h}, "")
	r.srv.RegisterName("ArithP", &ArithP{h: r.h}, "")
	r.srv.RegisterName("ArithV", &ArithV{h: r.h}, "")
	r.srv.RegisterFunctionName("Fn", "mul", func(ctx context.Context, a *SArgs, rep *SReply) error {
		touchResMeta(ctx, a.Id)
		c, err := r.h.run(a.Id, a.A, a.B, a.Mode, a.Text)
		if err != nil {
			return err
		}
		rep.Id, rep.C = a.Id, c
		return nil
	}, "")
	r.srv.RegisterFunctionName("FnP", "mul", func(ctx context.Context, a *PArgs, rep *PReply) error {
		return (&ArithP{h: r.h}).Mul(ctx, a, rep)
	}, "")
	// a registered function that takes its argument by value
	r.srv.RegisterFunctionName("FnV", "mul", func(ctx context.Context, a SArgs, rep *SReply) error {
		touchResMeta(ctx, a.Id)
		c, err := r.h.run(a.Id, a.A, a.B, a.Mode, a.Text)
		if err != nil {
			return err
		}
		rep.Id, rep.C = a.Id, c
		return nil
	}, "")
	r.srv.AddHandler("Rt", "mul", func(ctx *server.Context) error {
		// the router handler is user code: it runs for every request routed to it
		if m, ok := ctx.Get(share.ReqMetaDataKey).(map[string]string); ok {
			if n, err := strconv.Atoi(m["rid"]); err == nil {
				r.h.note(n)
			}
		}
		var a SArgs
		if err := ctx.Bind(&a); err != nil {
			return err
		}
		c, err := r.h.run2(a.Id, a.A, a.B, a.Mode, a.Text, false)
		if err != nil {
			return err
		}
		return ctx.Write(&SReply{Id: a.Id, C: c})
	})
	return r
}

func (r *srvRig) start() {
	go func() { r.done <- r.srv.ServeListener("vpipe", r.ln) }()
	select {
	case <-r.srv.Started:
	case <-time.After(2 * time.Second):
	}
}

func (r *srvRig) stop() {
	r.srv.Close()
	r.ln.Close()
}

// ---------- raw peer ----------
type rawPeer struct {
	conn   net.Conn
	frames chan *refcodec.Frame
	closed chan struct{}
}

func (r *srvRig) connect() (*rawPeer, error) {
	c, err := r.ln.dial()
	if err != nil {
		return nil, err
	}
	p := &rawPeer{conn: c, frames: make(chan *refcodec.Frame, 256), closed: make(chan struct{})}
	go p.readLoop()
	return p, nil
}

func (p *rawPeer) readLoop() {
	defer close(p.closed)
	rd := bufio.NewReader(p.conn)
	for {
		hdr := make([]byte, 16)
		if _, err := io.ReadFull(rd, hdr); err != nil {
			return
		}
		total := int(binary.BigEndian.Uint32(hdr[12:16]))
		body := make([]byte, total)
		if _, err := io.ReadFull(rd, body); err != nil {
			return
		}
		f, err := refcodec.Parse(append(hdr, body...))
		if err != nil {
			// a malformed frame from the server: report it as a frame with an impossible header
			f = &refcodec.Frame{}
			f.Header[0] = 0xEE
		}
		p.frames <- f
	}
}

type reqSpec struct {
	seq      uint64
	path     string
	method   string
	ser      byte
	hb       bool
	oneway   bool
	compress byte
	payload  []byte
	meta     []refcodec.KV
}

func (q reqSpec) frame() []byte {
	var h [12]byte
	h[0] = 8
	if q.hb {
		h[2] |= 0x40
	}
	if q.oneway {
		h[2] |= 0x20
	}
	h[2] |= (q.compress & 7) << 2
	h[3] = q.ser << 4
	binary.BigEndian.PutUint64(h[4:], q.seq)
	return refcodec.Build(h, []byte(q.path), []byte(q.method), q.meta, q.payload)
}

func (p *rawPeer) send(q reqSpec) error {
	_, err := p.conn.Write(q.frame())
	return err
}

func (p *rawPeer) next(d time.Duration) *refcodec.Frame {
	select {
	case f := <-p.frames:
		return f
	case <-time.After(d):
		return nil
	}
}

func (p *rawPeer) close() { p.conn.Close() }

// ---------- projection of a response ----------
type respView struct {
	seq      uint64
	path     string
	method   string
	ser      byte
	isResp   bool
	hb       bool
	status   string // normal / error
	errText  string
	hasErr   bool
	payload  []byte
	compress byte
	meta     map[string]string
}

func viewFrame(f *refcodec.Frame) respView {
	v := respView{seq: binary.BigEndian.Uint64(f.Header[4:]), path: string(f.Path), method: string(f.Method), ser: f.Header[3] >> 4,
		isResp: f.Header[2]&0x80 != 0, hb: f.Header[2]&0x40 != 0, status: "normal", payload: f.Raw, compress: (f.Header[2] >> 2) & 7,
		meta: refcodec.MetaMap(f.Meta)}
	if f.Header[2]&0x03 == 1 {
		v.status = "error"
	}
	if t, ok := v.meta[protocol.ServiceError]; ok {
		v.errText, v.hasErr = t, true
	}
	return v
}

// classify the error text into the model's vocabulary; texts maps handler texts to ids
func errKind(v respView, texts []string) string {
	if v.status != "error" {
		return "-"
	}
	t := v.errText
	idx := func(s string) int {
		for i, x := range texts {
			if x == s {
				return i
			}
		}
		return -1
	}
	switch {
	case t == srvVetoText:
		return "text:901"
	case t == server.ErrReqReachLimit.Error():
		return "text:902"
	case t == srvAuthText:
		return "text:903"
	case strings.HasPrefix(t, "rpcx: can't find service "):
		return "nosvc"
	case strings.HasPrefix(t, "rpcx: can't find method "):
		return "nometh"
	case strings.HasPrefix(t, "can not find codec for "):
		return "nocodec"
	case strings.HasPrefix(t, "[service internal error]"):
		// "[service internal error]: <panic value>, method: ..." : the value is what follows the prefix
		rest := strings.TrimPrefix(t, "[service internal error]: ")
		best := -1
		for i, x := range texts {
			if x != "" && strings.HasPrefix(rest, x) && (best < 0 || len(x) > len(texts[best])) {
				best = i
			}
		}
		if best >= 0 {
			return fmt.Sprintf("panic:%d", best)
		}
		return "panic:?"
	case idx(t) >= 0:
		return fmt.Sprintf("text:%d", idx(t))
	case strings.Contains(t, "json:") || strings.Contains(t, "invalid character") || strings.Contains(t, "cannot unmarshal") || strings.Contains(t, "unexpected end of JSON") || strings.Contains(t, "EOF"):
		return "decode"
	default:
		return "other:" + t
	}
}

func replyOf(v respView) (SReply, bool) {
	var r SReply
	if len(v.payload) == 0 {
		return r, false
	}
	if err := json.Unmarshal(v.payload, &r); err != nil {
		return r, false
	}
	return r, true
}

// a real client connected to the rig's listener
func (r *srvRig) realClient(opt client.Option) (*client.Client, error) {
	name := fmt.Sprintf("rig-%p", r)
	client.ConnFactories["vrig"] = func(c *client.Client, network, address string) (net.Conn, error) {
		return rigByName(address).ln.dial()
	}
	registerRig(name, r)
	c := client.NewClient(opt)
	if err := c.Connect("vrig", name); err != nil {
		return nil, err
	}
	return c, nil
}

var (
	rigMu  sync.Mutex
	rigMap = map[string]*srvRig{}
)

func registerRig(n string, r *srvRig) { rigMu.Lock(); rigMap[n] = r; rigMu.Unlock() }
func rigByName(n string) *srvRig      { rigMu.Lock(); defer rigMu.Unlock(); return rigMap[n] }
