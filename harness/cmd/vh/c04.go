package main

import (
	"runtime/debug"
	"encoding/binary"
	"bytes"
	"context"
	"sync"
	"encoding/json"
	"fmt"
	"github.com/smallnest/rpcx/share"
	"net"
	"runtime"
	"strconv"
	"strings"
	"time"

	"github.com/smallnest/rpcx/client"
	"github.com/smallnest/rpcx/protocol"
	"github.com/smallnest/rpcx/server"

	"verifharness/internal/common"
	"verifharness/internal/refcodec"
)

func init() {
	props["C04"] = func(r *common.Rand, tier string, o *common.Out, replay string) { runSrv("C04", r, tier, o, replay) }
	props["C07"] = func(r *common.Rand, tier string, o *common.Out, replay string) { runSrv("C07", r, tier, o, replay) }
}

type sreqCase struct {
	conn    int
	seq     uint64
	style   string // method pooled func router nosvc nometh
	ser     byte   // 1 JSON, 9 unknown
	hb, ow  bool
	a, b    int
	omitB   bool   // the request body leaves B out (must then be 0, not a stale value)
	badJSON bool   // undecodable arguments
	mode    string // ok err panic
	text    int    // index into texts
}

var srvTexts = []string{"", "boom", "line1\nline2\n\ttabbed", "ünïcödé ✓ 错误", strings.Repeat("long-", 13000), "x", "svc failed: code=42",
	strings.Repeat("panic-value-", 400) + "END"} // the last one: a panic value of 4.8 KB (it arrives whole)

func (q sreqCase) pathMethod() (string, string) {
	switch q.style {
	case "method":
		return "Arith", "Mul"
	case "pooled":
		return "ArithP", "Mul"
	case "pooledv": // the argument is taken BY VALUE; its pointer type implements Reset, so the object is pooled all the same
		return "ArithV", "Mul"
	case "func":
		return "Fn", "mul"
	case "funcp": // a registered function whose argument / reply types are pooled (implement Reset)
		return "FnP", "mul"
	case "funcv": // a registered function that takes its argument by value
		return "FnV", "mul"
	case "router":
		return "Rt", "mul"
	case "nosvc":
		return "NoSvc", "x"
	case "nomethqf": // the net/rpc spelling "Service.method" of a registered function: no such method
		return "Fn", "Fn.mul"
	case "nomethqm": // ... and of a reflected method
		return "Arith", "Arith.Mul"
	case "nomethe": // no method name at all
		return "Arith", ""
	default:
		return "Arith", "nometh"
	}
}

func (q sreqCase) noMethod() bool { return strings.HasPrefix(q.style, "nometh") }

func (q sreqCase) target() string {
	switch q.style {
	case "method", "pooled", "pooledv":
		return "method"
	case "func", "funcp", "funcv":
		return "func"
	case "router":
		return "router"
	case "nosvc":
		return "nosvc"
	default:
		return "nometh"
	}
}

func (q sreqCase) payload(rid int) []byte {
	if q.badJSON {
		if q.a%3 == 0 {
			return []byte{} // no payload at all: for the JSON codec that is not an argument either
		}
		if q.a%3 == 1 {
			// well-formed JSON with one field of the wrong type: the codec reports the error after it has filled the others
			return []byte(fmt.Sprintf(`{"A": %d, "B": 77, "Text": "left-behind", "Id": "not-an-int"}`, 1000+q.a))
		}
		return []byte(`{"Id": "not-an-int", `)
	}
	m := map[string]interface{}{"Id": rid, "A": q.a, "Mode": q.mode, "Text": srvTexts[q.text]}
	if !q.omitB {
		m["B"] = q.b
	}
	b, _ := json.Marshal(m)
	return b
}

func (q sreqCase) effB() int {
	if q.omitB {
		return 0
	}
	return q.b
}

// does a (gated) handler run for this request?
func (q sreqCase) handlerRuns() bool {
	if q.hb || q.refused() != "" {
		return false
	}
	switch q.style {
	case "nosvc", "nometh", "nomethqf", "nomethqm", "nomethe":
		return false
	case "router":
		// the router handler itself is user code: it runs, Bind fails inside it for bad input
		return q.ser == 1 && !q.badJSON
	}
	return q.ser == 1 && !q.badJSON && q.mode != "veto"
}

func (q sreqCase) enc(rid int) string {
	b := func(x bool) string {
		if x {
			return "1"
		}
		return "0"
	}
	return fmt.Sprintf("%d:%d:%s:%d:%s:%s:%d:%d:%s:%s:%s:%d", q.conn, q.seq, q.style, q.ser, b(q.hb), b(q.ow), q.a, q.b, b(q.omitB), b(q.badJSON), q.mode, q.text)
}

func decSreq(s string) sreqCase {
	f := strings.Split(s, ":")
	at := func(i int) int { n, _ := strconv.Atoi(f[i]); return n }
	seq, _ := strconv.ParseUint(f[1], 10, 64)
	return sreqCase{conn: at(0), seq: seq, style: f[2], ser: byte(at(3)), hb: f[4] == "1", ow: f[5] == "1", a: at(6), b: at(7),
		omitB: f[8] == "1", badJSON: f[9] == "1", mode: f[10], text: at(11)}
}

// refused by the connection loop before it is dispatched: "l" by a PostReadRequest plugin (the rate limiters'
// ErrReqReachLimit; heartbeats too), "a" by AuthFunc (heartbeats are not authenticated)
func (q sreqCase) refused() string {
	switch {
	case q.mode == "limit":
		return "l"
	case q.mode == "auth" && !q.hb:
		return "a"
	}
	return ""
}

// model token for a request
func (q sreqCase) modelTok(rid int) string {
	path, meth := q.pathMethod()
	b := func(x bool) string {
		if x {
			return "1"
		}
		return "0"
	}
	if q.mode == "limit" || q.mode == "auth" {
		kind, text := "l", 902
		if q.mode == "auth" {
			kind, text = "a", 903
		}
		return fmt.Sprintf("G:%d:%d:%d:%s:%s:%d:%s:%s:%s:%d", q.conn, rid, q.seq, path, meth, q.ser, b(q.hb), b(q.ow), kind, text)
	}
	h := "r0"
	switch q.mode {
	case "err":
		h = fmt.Sprintf("f%d", q.text)
	case "panic":
		h = fmt.Sprintf("p%d", q.text)
	case "veto":
		h = "v901"
	}
	dec := !q.badJSON
	if q.style == "router" && q.badJSON {
		// Bind fails inside the user's handler, which returns the codec error: a handler failure
		// with the decode error as its text - the model sees it as the decode kind
		h = "f900"
	}
	// reflected handlers set one response metadata entry (trace-id) for even request ids, before doing anything else
	rm := rid%2 == 0 && (q.style == "method" || q.style == "pooled" || q.style == "pooledv" || q.style == "func" || q.style == "funcp" || q.style == "funcv")
	return fmt.Sprintf("R:%d:%d:%d:%s:%s:%d:%s:%s:%s:%s:%s:%s:%d:%s", q.conn, rid, q.seq, path, meth, q.ser, b(q.hb), b(q.ow),
		q.target(), b(q.ser == 1), b(dec), h, q.a*q.effB(), b(rm))
}

func showView(v respView, q *sreqCase, rid int) string {
	pl := "-"
	if v.hb {
		pl = "echo"
	} else if v.status == "normal" {
		if rp, ok := replyOf(v); ok {
			pl = fmt.Sprintf("id%d=%d", rp.Id, rp.C)
		} else {
			pl = "undecodable:" + show(v.payload)
		}
	}
	ek := errKind(v, srvTexts)
	if ek == "decode" && q != nil && q.style == "router" {
		ek = "text:900"
	}
	rm := "-"
	if t, ok := v.meta["trace-id"]; ok {
		rm = t
	}
	return fmt.Sprintf("%d/%s.%s/%d/%s/%s/%s/rm=%s", v.seq, v.path, v.method, v.ser, v.status, ek, pl, rm)
}

func srvRunCase(o *common.Out, id string, nconn int, reqs []sreqCase, order []int, pool bool, viaClient bool) {
	var encs []string
	for i, q := range reqs {
		encs = append(encs, q.enc(i))
	}
	os := make([]string, len(order))
	for i, x := range order {
		os[i] = strconv.Itoa(x)
	}
	abstract := fmt.Sprintf("srv|%d|%v|%s|%s", nconn, pool, strings.Join(encs, ";"), strings.Join(os, ","))
	o.Begin(id, abstract)
	var opts []server.OptionFn
	if pool {
		opts = append(opts, server.WithPool(8, 64))
	}
	rig := newSrvRig(true, opts...)
	rig.start()
	defer rig.stop()
	peers := make([]*rawPeer, nconn)
	for i := range peers {
		p, err := rig.connect()
		if err != nil {
			o.Fail(id, "rig", err.Error(), abstract)
			return
		}
		peers[i] = p
		defer p.close()
	}
	perConn := make([][]string, nconn)
	var model []string
	fail := func(sig, d string) { o.Fail(id, sig, d, abstract) }
	// expect exactly one response for request rid on its connection, now
	expect := func(rid int) {
		q := reqs[rid]
		f := peers[q.conn].next(3 * time.Second)
		if f == nil {
			fail("no-response", fmt.Sprintf("request %d (seq %d, %s, two-way) got no response", rid, q.seq, q.style))
			return
		}
		v := viewFrame(f)
		perConn[q.conn] = append(perConn[q.conn], showView(v, &q, rid))
		// ---- property oracle on this response ----
		path, meth := q.pathMethod()
		if !v.isResp || v.seq != q.seq || v.path != path || v.method != meth || v.ser != q.ser {
			fail("wrong-stamp", fmt.Sprintf("response to request %d: seq=%d path=%s method=%s ser=%d resp=%v; request had seq=%d %s.%s ser=%d", rid, v.seq, v.path, v.method, v.ser, v.isResp, q.seq, path, meth, q.ser))
		}
		if q.hb && q.refused() == "" {
			return
		}
		wantErr := ""
		exact := true
		switch {
		case q.refused() == "l":
			wantErr = server.ErrReqReachLimit.Error()
		case q.refused() == "a":
			wantErr = srvAuthText
		case q.style == "nosvc":
			wantErr = "rpcx: can't find service NoSvc"
		case q.noMethod():
			wantErr = "rpcx: can't find method " + meth
		case q.ser != 1:
			wantErr = "can not find codec for 9"
		case q.badJSON:
			var a SArgs
			wantErr = json.Unmarshal(q.payload(rid), &a).Error()
			exact = false // the codec uses a Decoder; the message must at least be a JSON error
		case q.mode == "veto":
			wantErr = srvVetoText
		case q.mode == "err":
			wantErr = srvTexts[q.text]
			if wantErr == "" {
				wantErr = "\x00empty"
			}
		case q.mode == "panic":
			wantErr = srvTexts[q.text]
			exact = q.style == "router"
		}
		switch {
		case wantErr == "":
			rp, ok := replyOf(v)
			if v.status != "normal" || !ok || rp.Id != rid || rp.C != q.a*q.effB() {
				fail("wrong-result", fmt.Sprintf("request %d (A=%d,B=%d%s) answered status=%s err=%q payload=%s; want Id=%d C=%d", rid, q.a, q.effB(),
					map[bool]string{true: " omitted", false: ""}[q.omitB], v.status, v.errText, show(v.payload), rid, q.a*q.effB()))
			}
		case wantErr == "\x00empty":
			if v.status != "error" || !v.hasErr || v.errText != "" {
				fail("error-text-changed", fmt.Sprintf("request %d: handler error with empty text arrived as status=%s text=%q", rid, v.status, v.errText))
			}
		case exact:
			if v.status != "error" || v.errText != wantErr {
				fail("error-text-changed", fmt.Sprintf("request %d: server-side error %q arrived as status=%s text=%q", rid, shorten(wantErr), v.status, shorten(v.errText)))
			}
		default:
			if v.status != "error" || (q.mode == "panic" && !strings.Contains(v.errText, wantErr)) {
				fail("error-text-changed", fmt.Sprintf("request %d: failure %q arrived as status=%s text=%q", rid, shorten(wantErr), v.status, shorten(v.errText)))
			}
		}
	}
	gatedIDs := map[int]bool{}
	authClosed := map[int]bool{} // connections on which a request failed authentication: the server closes them
	// the schedule: every request is sent (S) and, if a gated handler runs for it, released (R).
	// Default: send all, then release in the given completion order.  A negative entry -k-1 in
	// `order` means "send request k now": that lets a case interleave sends and completions.
	sendOne := func(rid int) bool {
		q := reqs[rid]
		model = append(model, q.modelTok(rid))
		ps := q.payload(rid)
		path, meth := q.pathMethod()
		meta := []refcodec.KV{{K: []byte("rid"), V: []byte(strconv.Itoa(rid))}}
		switch q.mode {
		case "limit":
			meta = append(meta, refcodec.KV{K: []byte("x-limit"), V: []byte("1")})
		case "auth":
			meta = append(meta, refcodec.KV{K: []byte(share.AuthKey), V: []byte("deny")})
		}
		if err := peers[q.conn].send(reqSpec{seq: q.seq, path: path, method: meth, ser: q.ser, hb: q.hb, oneway: q.ow, payload: ps,
			meta: meta}); err != nil {
			fail("connection-closed", fmt.Sprintf("sending request %d: %v", rid, err))
			return false
		}
		if q.refused() == "a" {
			authClosed[q.conn] = true
		}
		if q.handlerRuns() {
			select {
			case got := <-rig.h.entered:
				if got != rid {
					fail("wrong-handler", fmt.Sprintf("handler entered for Id %d while request %d was sent", got, rid))
				}
				gatedIDs[rid] = true
			case <-time.After(3 * time.Second):
				fail("no-handler", fmt.Sprintf("request %d (%s) never reached its handler", rid, q.style))
			}
		} else {
			model = append(model, fmt.Sprintf("D:%d", rid))
			if (!q.ow || q.hb) && !(q.refused() != "" && q.ow) {
				expect(rid)
			}
		}
		return true
	}
	explicit := false
	for _, x := range order {
		if x < 0 {
			explicit = true
		}
	}
	for rid, q := range reqs {
		if explicit {
			break
		}
		_ = q
		if !sendOne(rid) {
			break
		}
	}
	for rid, q := range reqs {
		if true {
			break
		}
		model = append(model, q.modelTok(rid))
		ps := q.payload(rid)
		path, meth := q.pathMethod()
		if err := peers[q.conn].send(reqSpec{seq: q.seq, path: path, method: meth, ser: q.ser, hb: q.hb, oneway: q.ow, payload: ps,
			meta: []refcodec.KV{{K: []byte("rid"), V: []byte(strconv.Itoa(rid))}}}); err != nil {
			fail("connection-closed", fmt.Sprintf("sending request %d: %v", rid, err))
			break
		}
		if q.handlerRuns() {
			select {
			case got := <-rig.h.entered:
				if got != rid {
					fail("wrong-handler", fmt.Sprintf("handler entered for Id %d while request %d was sent", got, rid))
				}
				gatedIDs[rid] = true
			case <-time.After(3 * time.Second):
				fail("no-handler", fmt.Sprintf("request %d (%s) never reached its handler", rid, q.style))
			}
		} else {
			model = append(model, fmt.Sprintf("D:%d", rid))
			if !q.ow || q.hb {
				expect(rid)
			}
		}
	}
	for _, rid := range order {
		if rid < 0 {
			sendOne(-rid - 1)
			continue
		}
		if !gatedIDs[rid] {
			continue
		}
		rig.h.release(rid)
		select {
		case <-rig.h.finished:
		case <-time.After(3 * time.Second):
			fail("handler-stuck", fmt.Sprintf("handler of request %d did not finish", rid))
		}
		model = append(model, fmt.Sprintf("D:%d", rid))
		if !reqs[rid].ow {
			expect(rid)
		}
	}
	// a router handler is user code that runs for every request routed to it, also when it then fails to bind its
	// arguments and also for one-way requests, which nothing else waits for: wait until it has been noted
	for rid, q := range reqs {
		if q.style == "router" && !q.hb && !q.handlerRuns() && q.refused() == "" {
			deadline := time.Now().Add(3 * time.Second)
			for time.Now().Before(deadline) {
				rig.h.mu.Lock()
				seen := false
				for _, x := range rig.h.invoked {
					if x == rid {
						seen = true
					}
				}
				rig.h.mu.Unlock()
				if seen {
					break
				}
				time.Sleep(200 * time.Microsecond)
			}
		}
	}
	// one-way requests are not waited for by anything above: give what they may (wrongly) have written a moment to arrive
	for _, q := range reqs {
		if q.ow && !q.hb {
			time.Sleep(3 * time.Millisecond)
			break
		}
	}
	// the server keeps serving: a service published now (while requests have failed in every way above) becomes
	// callable - on a new connection - and the old connections go on
	{
		late := fmt.Sprintf("Late%d", len(reqs))
		regDone := make(chan error, 1)
		go func() { regDone <- rig.srv.RegisterName(late, &Arith{h: rig.h}, "") }()
		select {
		case err := <-regDone:
			if err != nil {
				fail("late-registration", "registering a service while serving: "+err.Error())
			}
		case <-time.After(2 * time.Second):
			fail("server-stuck", "registering a service while the server is serving does not return")
		}
		if lp, err := rig.connect(); err == nil {
			rig.h.mu.Lock()
			wasGated := rig.h.gated
			rig.h.gated = false
			rig.h.mu.Unlock()
			pl, _ := json.Marshal(map[string]interface{}{"Id": 7777, "A": 6, "B": 7, "Mode": "ok"})
			lp.send(reqSpec{seq: 5, path: late, method: "Mul", ser: 1, payload: pl})
			if f := lp.next(2 * time.Second); f == nil {
				fail("server-stuck", "a request on a new connection to a service published while serving got no answer")
			} else if rp, ok := replyOf(viewFrame(f)); !ok || rp.C != 42 {
				fail("wrong-result", "the service published while serving answered "+showView(viewFrame(f), nil, -1))
			}
			lp.close()
			rig.h.mu.Lock()
			rig.h.gated = wasGated
			for i, x := range rig.h.invoked {
				if x == 7777 {
					rig.h.invoked = append(rig.h.invoked[:i], rig.h.invoked[i+1:]...)
					break
				}
			}
			rig.h.mu.Unlock()
			for len(rig.h.entered) > 0 {
				<-rig.h.entered
			}
			for len(rig.h.finished) > 0 {
				<-rig.h.finished
			}
		}
	}
	// nothing else may be on any connection: a heartbeat's echo must be the very next frame
	for c, p := range peers {
		if authClosed[c] {
			// after the answer to the request that failed authentication nothing more may arrive, and the server closes
			if f := p.next(40 * time.Millisecond); f != nil {
				fail("extra-response", fmt.Sprintf("connection %d carries an extra frame after a failed authentication: %s", c, showView(viewFrame(f), nil, -1)))
			}
			continue
		}
		if err := p.send(reqSpec{seq: 999999, hb: true, ser: 1, payload: []byte("hb")}); err != nil {
			fail("connection-closed", fmt.Sprintf("connection %d was closed by the server", c))
			continue
		}
		f := p.next(3 * time.Second)
		if f == nil {
			fail("server-dead", fmt.Sprintf("connection %d no longer answers heartbeats", c))
			continue
		}
		if v := viewFrame(f); !v.hb || v.seq != 999999 {
			fail("extra-response", fmt.Sprintf("connection %d carries an extra frame: %s", c, showView(v, nil, -1)))
		}
	}
	// the handlers that ran
	rig.h.mu.Lock()
	for _, sh := range rig.h.shared {
		fail("pooled-object-shared", sh)
	}
	inv := append([]int{}, rig.h.invoked...)
	rig.h.mu.Unlock()
	sortInts(inv)
	is := make([]string, len(inv))
	for i, x := range inv {
		is[i] = strconv.Itoa(x)
	}
	var per []string
	for c := 0; c < nconn; c++ {
		used := false
		for _, q := range reqs {
			if q.conn == c {
				used = true
			}
		}
		if used {
			per = append(per, fmt.Sprintf("c%d=[%s]", c, strings.Join(perConn[c], ";")))
		}
	}
	obs := fmt.Sprintf("%s inv=[%s]", strings.Join(per, " "), strings.Join(is, ","))
	// C07: the same failing request through the real client: the caller sees the text unchanged
	if viaClient {
		srvClientCheck(o, id, abstract, rig, reqs)
		srvXClientCheck(o, id, abstract, rig, reqs)
	}
	o.Case(id, strings.Join(model, " "), obs, len(reqs) >= 2)
	o.Count(fmt.Sprintf("conns=%d", nconn))
	if pool {
		o.Count("worker-pool")
	}
}

func sortInts(a []int) {
	for i := 1; i < len(a); i++ {
		for j := i; j > 0 && a[j] < a[j-1]; j-- {
			a[j], a[j-1] = a[j-1], a[j]
		}
	}
}

func shorten(s string) string {
	if len(s) > 60 {
		return s[:60] + fmt.Sprintf("...(%d bytes)", len(s))
	}
	return s
}

// C07 end to end: client.Call against the rig: error text at the caller, then a probe call
func srvClientCheck(o *common.Out, id, abstract string, rig *srvRig, reqs []sreqCase) {
	rig.h.mu.Lock()
	rig.h.gated = false
	rig.h.mu.Unlock()
	opt := client.DefaultOption
	opt.SerializeType = protocol.JSON
	cl, err := rig.realClient(opt)
	if err != nil {
		o.Fail(id, "rig", err.Error(), abstract)
		return
	}
	defer cl.Close()
	if len(reqs)%2 == 0 {
		// an earlier call that its caller gave up (its context ended while the handler was still running) must not
		// leave anything behind: the calls that follow each see their own outcome.  One P: whatever the client
		// recycles per P is handed to the very next call.
		prev := runtime.GOMAXPROCS(1)
		defer runtime.GOMAXPROCS(prev)
		rig.h.mu.Lock()
		rig.h.gated = true
		rig.h.mu.Unlock()
		actx, acancel := context.WithCancel(context.Background())
		adone := make(chan error, 1)
		go func() {
			var rp SReply
			adone <- cl.Call(actx, "Arith", "Mul", &SArgs{Id: 8888, A: 1, B: 1, Mode: "ok"}, &rp)
		}()
		select {
		case <-rig.h.entered:
		case <-time.After(3 * time.Second):
		}
		acancel()
		select {
		case <-adone:
		case <-time.After(3 * time.Second):
		}
		rig.h.release(8888)
		select {
		case <-rig.h.finished:
		case <-time.After(3 * time.Second):
		}
		rig.h.mu.Lock()
		rig.h.gated = false
		rig.h.mu.Unlock()
		// the abandoned call's response has been written by now; a round trip makes sure the client has read it
		var rp SReply
		bctx, bcancel := context.WithTimeout(context.Background(), 3*time.Second)
		if err := cl.Call(bctx, "Arith", "Mul", &SArgs{Id: 8889, A: 3, B: 5, Mode: "ok"}, &rp); err != nil || rp.C != 15 {
			o.Fail(id, "wrong-result", fmt.Sprintf("the call after an abandoned call: err=%v reply=%+v want C=15", err, rp), abstract)
		}
		bcancel()
		for len(rig.h.entered) > 0 {
			<-rig.h.entered
		}
		for len(rig.h.finished) > 0 {
			<-rig.h.finished
		}
	}
	if len(reqs)%2 == 1 {
		// a request that carries a server-side time limit (the __ServerTimeout metadata); its handler is still running
		// when the limit passes, and then fails - or panics - with its own text: that text is what the caller gets
		for k, style := range [][2]string{{"Arith", "Mul"}, {"Fn", "mul"}} {
			for m, mode := range []string{"err", "panic"} {
				idn := 8900 + 2*k + m
				rig.h.mu.Lock()
				rig.h.gated = true
				rig.h.mu.Unlock()
				ctx := context.WithValue(context.Background(), share.ReqMetaDataKey, map[string]string{share.ServerTimeout: "15"})
				ctx, cancel := context.WithTimeout(ctx, 4*time.Second)
				done := make(chan error, 1)
				text := fmt.Sprintf("late failure %d", idn)
				go func() {
					var rp SReply
					done <- cl.Call(ctx, style[0], style[1], &SArgs{Id: idn, A: 1, B: 1, Mode: mode, Text: text}, &rp)
				}()
				select {
				case <-rig.h.entered:
				case <-time.After(3 * time.Second):
				}
				time.Sleep(40 * time.Millisecond) // the server-side limit has passed
				rig.h.release(idn)
				select {
				case <-rig.h.finished:
				case <-time.After(3 * time.Second):
				}
				select {
				case err := <-done:
					if err == nil || !strings.Contains(err.Error(), text) {
						o.Fail(id, "error-text-changed", fmt.Sprintf("a handler (%s.%s) that outlived the request's __ServerTimeout and then failed (%s) with %q: the caller got %v", style[0], style[1], mode, text, err), abstract)
					}
				case <-time.After(3 * time.Second):
					o.Fail(id, "service-error-lost", "the call with a server-side time limit never returned", abstract)
				}
				cancel()
				rig.h.mu.Lock()
				rig.h.gated = false
				rig.h.mu.Unlock()
				for len(rig.h.entered) > 0 {
					<-rig.h.entered
				}
				for len(rig.h.finished) > 0 {
					<-rig.h.finished
				}
			}
		}
	}
	for i, q := range reqs {
		if q.hb || q.ow || q.ser != 1 || q.badJSON {
			continue
		}
		path, meth := q.pathMethod()
		var rep SReply
		ctx, cancel := context.WithTimeout(context.Background(), 3*time.Second)
		err := cl.Call(ctx, path, meth, &SArgs{Id: 5000 + i, A: q.a, B: q.effB(), Mode: q.mode, Text: srvTexts[q.text]}, &rep)
		cancel()
		// drain handler signals
		for len(rig.h.entered) > 0 {
			<-rig.h.entered
		}
		for len(rig.h.finished) > 0 {
			<-rig.h.finished
		}
		want := ""
		contains := false
		switch {
		case q.style == "nosvc":
			want = "rpcx: can't find service NoSvc"
		case q.noMethod():
			_, m := q.pathMethod()
			want = "rpcx: can't find method " + m
		case q.mode == "veto":
			want = srvVetoText
		case q.mode == "err":
			want = srvTexts[q.text]
			if want == "" {
				if err == nil {
					o.Fail(id, "service-error-lost", fmt.Sprintf("request %d: the handler returned an error with empty text, the caller got err == nil", i), abstract)
				} else if err.Error() != "" {
					o.Fail(id, "error-text-changed", fmt.Sprintf("request %d: empty error text arrived as %q", i, shorten(err.Error())), abstract)
				}
				continue
			}
		case q.mode == "panic":
			want = srvTexts[q.text]
			contains = q.style != "router"
		}
		switch {
		case want == "":
			if err != nil || rep.C != q.a*q.effB() {
				o.Fail(id, "wrong-result", fmt.Sprintf("client call %d: err=%v reply=%+v want C=%d", i, err, rep, q.a*q.effB()), abstract)
			}
		case err == nil:
			o.Fail(id, "service-error-lost", fmt.Sprintf("client call %d: the server failed with %q, the caller got err == nil", i, shorten(want)), abstract)
		case contains:
			if !strings.Contains(err.Error(), want) {
				o.Fail(id, "error-text-changed", fmt.Sprintf("client call %d: panic value %q not in the caller's error %q", i, shorten(want), shorten(err.Error())), abstract)
			}
		default:
			if err.Error() != want {
				o.Fail(id, "error-text-changed", fmt.Sprintf("client call %d: server-side text %q, caller got %q", i, shorten(want), shorten(err.Error())), abstract)
			}
		}
		if _, ok := err.(client.ServiceError); want != "" && err != nil && !ok {
			o.Fail(id, "not-a-service-error", fmt.Sprintf("client call %d: error %T is not a ServiceError", i, err), abstract)
		}
	}
	// probe: the server still serves this and a second connection
	var rep SReply
	ctx, cancel := context.WithTimeout(context.Background(), 3*time.Second)
	if err := cl.Call(ctx, "Arith", "Mul", &SArgs{Id: 7777, A: 6, B: 7, Mode: "ok"}, &rep); err != nil || rep.C != 42 {
		o.Fail(id, "server-dead", fmt.Sprintf("probe on the same connection after the failures: err=%v reply=%+v", err, rep), abstract)
	}
	cancel()
}

// C07 through the discovery client, with a circuit breaker configured: failures that a live server REPORTS (handler
// errors, panics, unknown methods) are answers of the server, each caller gets its own failure's text however many
// came before, and a valid request that follows is served.
func srvXClientCheck(o *common.Out, id, abstract string, rig *srvRig, reqs []sreqCase) {
	rig.h.mu.Lock()
	rig.h.gated = false
	rig.h.mu.Unlock()
	name := fmt.Sprintf("rig-%p", rig)
	client.ConnFactories["vrig"] = func(c *client.Client, network, address string) (net.Conn, error) {
		return rigByName(address).ln.dial()
	}
	registerRig(name, rig)
	drain := func() {
		for len(rig.h.entered) > 0 {
			<-rig.h.entered
		}
		for len(rig.h.finished) > 0 {
			<-rig.h.finished
		}
	}
	for mi, mode := range []client.FailMode{client.Failfast, client.Failtry, client.Failover} {
		if (len(reqs)+mi)%3 != 0 {
			continue // one fail mode per case
		}
		d, _ := client.NewPeer2PeerDiscovery("vrig@"+name, "")
		opt := client.DefaultOption
		opt.SerializeType = protocol.JSON
		opt.Retries = 1
		opt.GenBreaker = func() client.Breaker { return client.NewConsecCircuitBreaker(2, 30*time.Second) }
		xc := client.NewXClient("Arith", mode, client.RandomSelect, d, opt)
		kinds := []string{"err", "panic", "nometh", "err", "err"}
		for k, kind := range kinds {
			var rep SReply
			ctx, cancel := context.WithTimeout(context.Background(), 3*time.Second)
			text := fmt.Sprintf("reported-failure-%d", k)
			meth, args := "Mul", &SArgs{Id: 6000 + k, A: 2, B: 3, Mode: kind, Text: text}
			want := text
			if kind == "nometh" {
				meth, args.Mode, want = "nometh", "ok", "rpcx: can't find method nometh"
			}
			err := xc.Call(ctx, meth, args, &rep)
			cancel()
			drain()
			switch {
			case err == nil:
				o.Fail(id, "service-error-lost", fmt.Sprintf("discovery client (mode %v), failing call %d: the caller got err == nil", mode, k), abstract)
			case !strings.Contains(err.Error(), want):
				o.Fail(id, "error-text-changed", fmt.Sprintf("discovery client (mode %v) with a breaker, failing call %d: the server reported %q, the caller got %q", mode, k, want, shorten(err.Error())), abstract)
			}
		}
		var rep SReply
		ctx, cancel := context.WithTimeout(context.Background(), 3*time.Second)
		if err := xc.Call(ctx, "Mul", &SArgs{Id: 6100, A: 6, B: 7, Mode: "ok"}, &rep); err != nil || rep.C != 42 {
			o.Fail(id, "server-dead", fmt.Sprintf("discovery client (mode %v) with a breaker: a valid request after five reported failures: err=%v reply=%+v", mode, err, rep), abstract)
		}
		cancel()
		drain()
		xc.Close()
	}
}

// Asynchronous response writes (server.WithAsyncWrite, with and without a worker pool): the write of a response is
// handed to another goroutine.  The transport takes the bytes of response 1 late - after response 2 has been
// computed and encoded: each request is still answered exactly once with its own result.  case: async|<pool>|<style>
type closeNoteConn struct {
	net.Conn
	once   sync.Once
	closed chan struct{}
}

func (c *closeNoteConn) Close() error {
	c.once.Do(func() { close(c.closed) })
	return c.Conn.Close()
}

type wroteNotePlugin struct{ ch chan struct{} }

func (p *wroteNotePlugin) PostWriteResponse(ctx context.Context, req, res *protocol.Message, err error) error {
	select {
	case p.ch <- struct{}{}:
	default:
	}
	return nil
}

// srvGoneClient: the client hangs up while its request is in the handler; the server has closed the connection when the
// handler returns (with or without a write timeout configured, which makes the server touch the dead connection before
// it writes).  The response is lost - afterwards the frame pool is as sound as before: eight encoders holding their
// frames hold eight buffers.  Oracle only.  case: gone|<pool>|<write timeout>|<style>
func srvGoneClient(o *common.Out, id string, pool, wt bool, style string) {
	abstract := fmt.Sprintf("gone|%v|%v|%s", pool, wt, style)
	o.Begin(id, abstract)
	o.Count("client-gone-before-the-response")
	prev := runtime.GOMAXPROCS(1)
	defer runtime.GOMAXPROCS(prev)
	var opts []server.OptionFn
	if pool {
		opts = append(opts, server.WithPool(4, 64))
	}
	if wt {
		opts = append(opts, server.WithWriteTimeout(2*time.Second))
	}
	rig := newSrvRig(true, opts...)
	var cn *closeNoteConn
	rig.ln.wrap = func(c net.Conn) net.Conn { cn = &closeNoteConn{Conn: c, closed: make(chan struct{})}; return cn }
	wp := &wroteNotePlugin{ch: make(chan struct{}, 4)}
	rig.srv.Plugins.Add(wp)
	rig.start()
	defer rig.stop()
	peer, err := rig.connect()
	if err != nil {
		o.Fail(id, "rig", err.Error(), abstract)
		return
	}
	q := sreqCase{seq: 21, style: style, ser: 1, a: 3, b: 5, mode: "ok"}
	path, meth := q.pathMethod()
	if err := peer.send(reqSpec{seq: q.seq, path: path, method: meth, ser: 1, payload: q.payload(0),
		meta: []refcodec.KV{{K: []byte("rid"), V: []byte("0")}}}); err != nil {
		o.Fail(id, "rig", err.Error(), abstract)
		return
	}
	select {
	case <-rig.h.entered:
	case <-time.After(12 * time.Second):
		o.Fail(id, "no-handler", "the request never reached its handler", abstract)
		return
	}
	peer.close()
	select {
	case <-cn.closed:
	case <-time.After(12 * time.Second):
		o.Fail(id, "rig", "the server did not close the connection its peer had left", abstract)
		return
	}
	rig.h.release(0)
	<-rig.h.finished
	select {
	case <-wp.ch:
	case <-time.After(400 * time.Millisecond):
		// no post-write stage for this response (a router handler writes by itself): the write path has had its time
	}
	if bad := framePoolProbe(); bad != "" {
		o.Fail(id, "pooled-object-shared", "after a response that could not be delivered (client gone): "+bad, abstract)
	}
	o.ImplOnly(id, abstract, true)
}

// srvRefusedThenAuth: on one connection, a request the rate limiter turns away (answered, connection kept), possibly an
// ordinary request, then a request that fails authentication: it is answered with the authentication error, no handler
// runs for it, and the connection is closed - whatever was refused on it before.  Oracle only.
// case: refauth|<one-way>|<ordinary request in between>
func srvRefusedThenAuth(o *common.Out, id string, ow, between bool) {
	srvRefusedThenAuthOn(o, id, ow, between, "")
}

// opt: "" (defaults), "pool" (worker pool), "async" (asynchronous writes), "none" (nothing refused before: the failed
// authentication is the first thing on the connection)
func srvRefusedThenAuthOn(o *common.Out, id string, ow, between bool, opt string) {
	abstract := fmt.Sprintf("refauth|%v|%v", ow, between)
	if opt != "" {
		abstract += "|" + opt
	}
	o.Begin(id, abstract)
	o.Count("refused-then-failed-authentication")
	var sopts []server.OptionFn
	switch opt {
	case "pool", "none-pool":
		sopts = append(sopts, server.WithPool(4, 64))
	case "async":
		sopts = append(sopts, server.WithAsyncWrite())
	}
	rig := newSrvRig(false, sopts...)
	rig.start()
	defer rig.stop()
	peer, err := rig.connect()
	if err != nil {
		o.Fail(id, "rig", err.Error(), abstract)
		return
	}
	defer peer.close()
	body := func(rid int) []byte {
		b, _ := json.Marshal(map[string]interface{}{"Id": rid, "A": 3, "B": 4, "Mode": "ok", "Text": ""})
		return b
	}
	want := func(seq uint64, what string) *refcodec.Frame {
		f := peer.next(12 * time.Second)
		if f == nil || binary.BigEndian.Uint64(f.Header[4:]) != seq {
			o.Fail(id, "no-response", what+": not answered", abstract)
			return nil
		}
		return f
	}
	if !strings.HasPrefix(opt, "none") {
		peer.send(reqSpec{seq: 51, path: "Arith", method: "Mul", ser: 1, oneway: ow, payload: body(0),
			meta: []refcodec.KV{{K: []byte("x-limit"), V: []byte("1")}, {K: []byte("rid"), V: []byte("0")}}})
		if !ow && want(51, "the rate-limited request") == nil {
			return
		}
	}
	if between {
		peer.send(reqSpec{seq: 52, path: "Arith", method: "Mul", ser: 1, payload: body(1), meta: []refcodec.KV{{K: []byte("rid"), V: []byte("1")}}})
		if want(52, "the ordinary request") == nil {
			return
		}
	}
	invoked := func() int { rig.h.mu.Lock(); defer rig.h.mu.Unlock(); return len(rig.h.invoked) }
	before := invoked()
	peer.send(reqSpec{seq: 53, path: "Arith", method: "Mul", ser: 1, payload: body(2),
		meta: []refcodec.KV{{K: []byte(share.AuthKey), V: []byte("deny")}, {K: []byte("rid"), V: []byte("2")}}})
	// the requester gets the authentication error - or, when the error is written asynchronously and loses against the
	// closing of the connection, just the closed connection; never a result
	var f *refcodec.Frame
	select {
	case f = <-peer.frames:
	case <-peer.closed:
		select {
		case f = <-peer.frames:
		default:
		}
	case <-time.After(12 * time.Second):
	}
	if f != nil {
		if binary.BigEndian.Uint64(f.Header[4:]) != 53 || f.Header[2]&0x03 != 1 {
			o.Fail(id, "result-for-rejected", "a request that failed authentication was answered with something else than its error", abstract)
		}
	} else if opt != "async" {
		select {
		case <-peer.closed:
			o.Fail(id, "no-response", "the request that failed authentication: the connection was closed without the error having been written (synchronous writes)", abstract)
		default:
			o.Fail(id, "no-response", "the request that failed authentication: not answered", abstract)
		}
		return
	}
	select {
	case <-peer.closed:
	case <-time.After(12 * time.Second):
		o.Fail(id, "auth-failure-not-closed", "the connection stayed open after a request on it failed authentication (an earlier request on it had been turned away by the rate limiter)", abstract)
	}
	if n := invoked() - before; n != 0 {
		o.Fail(id, "handler-reached", fmt.Sprintf("%d handler(s) ran for a request that failed authentication", n), abstract)
	}
	o.ImplOnly(id, abstract, true)
}

func srvAsyncWrite(o *common.Out, id string, pool bool, style string) {
	abstract := fmt.Sprintf("async|%v|%s", pool, style)
	o.Begin(id, abstract)
	prev := runtime.GOMAXPROCS(1) // one P: the frame-buffer pool hands the buffer put last to the next encoder
	defer runtime.GOMAXPROCS(prev)
	opts := []server.OptionFn{server.WithAsyncWrite()}
	if pool {
		opts = append(opts, server.WithPool(4, 64))
	}
	rig := newSrvRig(true, opts...)
	var hc *holdConn
	rig.ln.wrap = func(c net.Conn) net.Conn { hc = newHoldConn(c); return hc }
	rig.start()
	defer rig.stop()
	peer, err := rig.connect()
	if err != nil {
		o.Fail(id, "rig", err.Error(), abstract)
		return
	}
	defer peer.close()
	fail := func(sig, d string) { o.Fail(id, sig, d, abstract) }
	failing := strings.HasSuffix(style, "!") // the three requests fail, each with a text of its own
	style = strings.TrimSuffix(style, "!")
	reqs := []sreqCase{{seq: 11, style: style, ser: 1, a: 3, b: 5, mode: "ok"}, {seq: 12, style: style, ser: 1, a: 7, b: 9, mode: "ok"},
		{seq: 13, style: style, ser: 1, a: 2, b: 4, mode: "ok"}}
	if failing {
		for i, t := range []int{6, 1, 3} {
			reqs[i].mode, reqs[i].text = "err", t
		}
	}
	for rid, q := range reqs {
		path, meth := q.pathMethod()
		if err := peer.send(reqSpec{seq: q.seq, path: path, method: meth, ser: 1, payload: q.payload(rid),
			meta: []refcodec.KV{{K: []byte("rid"), V: []byte(strconv.Itoa(rid))}}}); err != nil {
			fail("connection-closed", err.Error())
			return
		}
		select {
		case <-rig.h.entered:
		case <-time.After(3 * time.Second):
			fail("no-handler", fmt.Sprintf("request %d never reached its handler", rid))
			return
		}
	}
	waitWrite := func(what string) bool {
		select {
		case <-hc.arrived:
			return true
		case <-time.After(3 * time.Second):
			fail("no-response", what+": no write reached the transport")
			return false
		}
	}
	hc.hold(true)
	// response 0 is computed and its write reaches the transport, which does not take the bytes yet
	rig.h.release(0)
	<-rig.h.finished
	if !waitWrite("response 0") {
		return
	}
	// responses 1 and 2 are computed and encoded meanwhile
	for _, rid := range []int{1, 2} {
		rig.h.release(rid)
		<-rig.h.finished
		if !waitWrite(fmt.Sprintf("response %d", rid)) {
			return
		}
	}
	hc.hold(false)
	for i := 0; i < 3; i++ {
		hc.release <- struct{}{}
	}
	seen := map[uint64]int{}
	for i := 0; i < 3; i++ {
		f := peer.next(3 * time.Second)
		if f == nil {
			fail("no-response", fmt.Sprintf("only %d of 3 responses arrived", i))
			break
		}
		v := viewFrame(f)
		seen[v.seq]++
		rid := int(v.seq) - 11
		if rid < 0 || rid > 2 {
			fail("wrong-result", fmt.Sprintf("a response with sequence number %d, which no request carried: %s", v.seq, showView(v, nil, -1)))
			continue
		}
		if failing {
			if v.status != "error" || v.errText != srvTexts[reqs[rid].text] {
				fail("error-text-changed", fmt.Sprintf("request %d (seq %d) failed with %q; its caller received status=%s text=%q", rid, v.seq, shorten(srvTexts[reqs[rid].text]), v.status, shorten(v.errText)))
			}
			continue
		}
		rp, ok := replyOf(v)
		if v.status != "normal" || !ok || rp.Id != rid || rp.C != reqs[rid].a*reqs[rid].b {
			fail("wrong-result", fmt.Sprintf("request %d (seq %d, %dx%d) answered with %s", rid, v.seq, reqs[rid].a, reqs[rid].b, showView(v, nil, -1)))
		}
	}
	for rid := range reqs {
		if n := seen[uint64(11+rid)]; n != 1 {
			fail("response-count", fmt.Sprintf("request %d (seq %d) was answered %d times", rid, 11+rid, n))
		}
	}
	// every frame buffer went back to its pool once: the next encoders of that size class each get a buffer of their own
	if bad := framePoolProbe(); bad != "" {
		fail("pooled-object-shared", bad)
	}
	o.ImplOnly(id, abstract, true)
	o.Count("async-write-schedule")
}

// framePoolProbe: encode 8 small messages, hold all 8 frames: distinct buffers, each still its own bytes (one P, no GC
// in between: a buffer that was put twice comes out twice in a row)
func framePoolProbe() string {
	prevGC := debug.SetGCPercent(-1)
	defer debug.SetGCPercent(prevGC)
	var held []*[]byte
	bad := ""
	for i := 0; i < 8; i++ {
		m := protocol.NewMessage()
		m.SetSeq(uint64(7000 + i))
		m.ServicePath, m.ServiceMethod = "Probe", "p"
		m.Payload = bytes.Repeat([]byte{byte('a' + i)}, 60)
		held = append(held, m.EncodeSlicePointer())
	}
	for i, d := range held {
		for j := 0; j < i; j++ {
			if &(*held[j])[0] == &(*d)[0] && bad == "" {
				bad = fmt.Sprintf("two encoders (frames %d and %d), both still holding their frame, were handed the same buffer", j, i)
			}
		}
		if f, err := refcodec.Parse(*d); err != nil || binary.BigEndian.Uint64(f.Header[4:]) != uint64(7000+i) || !bytes.Equal(f.Raw, bytes.Repeat([]byte{byte('a' + i)}, 60)) {
			if bad == "" {
				bad = fmt.Sprintf("frame %d was overwritten while its encoder still held it", i)
			}
		}
	}
	for _, d := range held {
		protocol.PutData(d)
	}
	return bad
}

// queuePool: a worker pool (server.WithCustomPool) that only queues; the harness runs the queued tasks when and in
// the order it wants - so the reader can have read several requests of one connection before any of them starts
type queuePool struct {
	mu    sync.Mutex
	tasks []func()
}

func (p *queuePool) Submit(task func()) { p.mu.Lock(); p.tasks = append(p.tasks, task); p.mu.Unlock() }
func (p *queuePool) StopAndWaitFor(time.Duration) {}
func (p *queuePool) Stop() context.Context        { return context.Background() }
func (p *queuePool) StopAndWait()                 {}
func (p *queuePool) queued() int                  { p.mu.Lock(); defer p.mu.Unlock(); return len(p.tasks) }
func (p *queuePool) take(i int) func() {
	p.mu.Lock()
	defer p.mu.Unlock()
	t := p.tasks[i]
	p.tasks[i] = nil
	return t
}

// srvQueuedPool: k requests written to one connection in ONE burst, all read and queued before any starts, then run
// in the given order: each is answered once, with its own stamp and its own result.  case: qpool|<reqs>|<order>
func srvQueuedPool(o *common.Out, id string, reqs []sreqCase, order []int, oracleOnly bool) {
	var encs, os []string
	for i, q := range reqs {
		encs = append(encs, q.enc(i))
	}
	for _, x := range order {
		os = append(os, strconv.Itoa(x))
	}
	abstract := fmt.Sprintf("qpool|%s|%s", strings.Join(encs, ";"), strings.Join(os, ","))
	o.Begin(id, abstract)
	o.Count("queued-worker-pool-burst")
	qp := &queuePool{}
	rig := newSrvRig(false, server.WithCustomPool(qp))
	rig.start()
	defer rig.stop()
	p, err := rig.connect()
	if err != nil {
		o.Fail(id, "rig", err.Error(), abstract)
		return
	}
	defer p.close()
	var burst []byte
	var model []string
	for rid, q := range reqs {
		path, meth := q.pathMethod()
		meta := []refcodec.KV{{K: []byte("rid"), V: []byte(strconv.Itoa(rid))}}
		switch q.mode {
		case "limit":
			meta = append(meta, refcodec.KV{K: []byte("x-limit"), V: []byte("1")})
		case "auth":
			meta = append(meta, refcodec.KV{K: []byte(share.AuthKey), V: []byte("deny")})
		}
		burst = append(burst, reqSpec{seq: q.seq, path: path, method: meth, ser: q.ser, hb: q.hb, oneway: q.ow, payload: q.payload(rid),
			meta: meta}.frame()...)
		model = append(model, q.modelTok(rid))
	}
	if _, err := p.conn.Write(burst); err != nil {
		o.Fail(id, "connection-closed", err.Error(), abstract)
		return
	}
	// the requests the connection loop refuses itself are answered by the reader at once and never queued
	taskOf := map[int]int{}
	var refusedRids []int
	for rid, q := range reqs {
		if q.refused() != "" {
			refusedRids = append(refusedRids, rid)
		} else {
			taskOf[rid] = len(taskOf)
		}
	}
	nq := len(taskOf)
	deadline := time.Now().Add(3 * time.Second)
	for qp.queued() < nq && time.Now().Before(deadline) {
		time.Sleep(200 * time.Microsecond)
	}
	if qp.queued() != nq {
		o.Fail(id, "not-queued", fmt.Sprintf("%d of %d admitted requests reached the worker pool", qp.queued(), nq), abstract)
		return
	}
	var per []string
	for _, rid := range refusedRids {
		q := reqs[rid]
		if q.ow && !q.hb {
			continue
		}
		f := p.next(3 * time.Second)
		if f == nil {
			o.Fail(id, "no-response", fmt.Sprintf("the refused request %d (seq %d) got no answer", rid, q.seq), abstract)
			continue
		}
		v := viewFrame(f)
		per = append(per, showView(v, &q, rid))
		if !v.isResp || v.seq != q.seq || v.status != "error" || v.errText != server.ErrReqReachLimit.Error() {
			o.Fail(id, "result-for-rejected", fmt.Sprintf("the refused request %d (seq %d) was answered with %s", rid, q.seq, showView(v, &q, rid)), abstract)
		}
	}
	for _, rid := range order {
		if _, admitted := taskOf[rid]; !admitted {
			model = append(model, fmt.Sprintf("D:%d", rid))
			continue
		}
		qp.take(taskOf[rid])()
		model = append(model, fmt.Sprintf("D:%d", rid))
		q := reqs[rid]
		if q.ow && !q.hb {
			continue
		}
		f := p.next(3 * time.Second)
		if f == nil {
			o.Fail(id, "no-response", fmt.Sprintf("request %d (seq %d) got no response after its task ran", rid, q.seq), abstract)
			continue
		}
		v := viewFrame(f)
		per = append(per, showView(v, &q, rid))
		path, meth := q.pathMethod()
		if !v.isResp || v.seq != q.seq || v.path != path || v.method != meth || v.ser != q.ser {
			o.Fail(id, "wrong-stamp", fmt.Sprintf("the task of request %d (seq %d %s.%s) wrote a response with seq=%d %s.%s resp=%v", rid, q.seq, path, meth, v.seq, v.path, v.method, v.isResp), abstract)
		}
		if q.mode == "ok" && !q.hb && q.ser == 1 && !q.badJSON && q.style != "nosvc" && !q.noMethod() {
			if rp, ok := replyOf(v); !ok || v.status != "normal" || rp.Id != rid || rp.C != q.a*q.effB() {
				o.Fail(id, "wrong-result", fmt.Sprintf("request %d (A=%d,B=%d) answered status=%s payload=%s", rid, q.a, q.effB(), v.status, show(v.payload)), abstract)
			}
		}
	}
	if err := p.send(reqSpec{seq: 999999, hb: true, ser: 1, payload: []byte("hb")}); err == nil {
		dl := time.Now().Add(3 * time.Second)
		for qp.queued() < nq+1 && time.Now().Before(dl) {
			time.Sleep(200 * time.Microsecond)
		}
		if qp.queued() == nq+1 {
			qp.take(nq)()
		}
		if f := p.next(3 * time.Second); f == nil {
			o.Fail(id, "server-dead", "the connection no longer answers heartbeats", abstract)
		} else if v := viewFrame(f); !v.hb || v.seq != 999999 {
			o.Fail(id, "extra-response", "the connection carries an extra frame: "+showView(v, nil, -1), abstract)
		}
	}
	rig.h.mu.Lock()
	inv := append([]int{}, rig.h.invoked...)
	rig.h.mu.Unlock()
	sortInts(inv)
	is := make([]string, len(inv))
	for i, x := range inv {
		is[i] = strconv.Itoa(x)
	}
	// a handler ran exactly for the requests that were admitted and can be dispatched
	var wantInv []string
	for rid, q := range reqs {
		if q.handlerRuns() {
			wantInv = append(wantInv, strconv.Itoa(rid))
		}
	}
	if strings.Join(is, ",") != strings.Join(wantInv, ",") {
		o.Fail(id, "handler-reached", fmt.Sprintf("handlers ran for requests [%s]; the requests that were admitted and name a service are [%s]", strings.Join(is, ","), strings.Join(wantInv, ",")), abstract)
	}
	if oracleOnly {
		o.ImplOnly(id, abstract, true)
		return
	}
	o.Case(id, strings.Join(model, " "), fmt.Sprintf("c0=[%s] inv=[%s]", strings.Join(per, ";"), strings.Join(is, ",")), true)
}

func genSreq(prop string, r *common.Rand, nconn int) sreqCase {
	q := sreqCase{conn: r.Intn(nconn), seq: uint64(r.Intn(6)), ser: 1, a: r.Intn(12), b: 1 + r.Intn(12), mode: "ok"}
	if r.Chance(20) {
		q.seq = r.U64()
	}
	q.style = []string{"method", "method", "pooled", "pooled", "pooledv", "func", "funcp", "funcv", "router", "nosvc", "nometh", "nomethqf", "nomethqm", "nomethe"}[r.Intn(14)]
	failP := 25
	if prop == "C07" {
		failP = 60
	}
	if r.Chance(failP) {
		switch r.Intn(5) {
		case 0:
			q.mode, q.text = "err", r.Intn(len(srvTexts))
		case 1:
			q.mode, q.text = "panic", 1+r.Intn(len(srvTexts)-1)
		case 2:
			q.ser = 9
		case 3:
			q.badJSON = true
		default:
			q.style = []string{"nosvc", "nometh"}[r.Intn(2)]
		}
	}
	if q.mode == "ok" && r.Chance(12) && (q.style == "method" || q.style == "pooled" || q.style == "pooledv" || q.style == "func" || q.style == "funcp" || q.style == "funcv") {
		q.mode = "veto"
	}
	if r.Chance(25) {
		q.omitB = true
	}
	if r.Chance(12) {
		q.ow = true
	}
	if r.Chance(6) {
		q.hb = true
	}
	if q.mode == "panic" && q.text == 4 {
		q.text = 7 // 65 KB would make the stack messages huge; 4.8 KB is long enough to meet any cap
	}
	if prop == "C04" && r.Chance(7) {
		q.mode = "limit" // refused by a PostReadRequest plugin before it is dispatched, whatever else it is
	}
	return q
}

func runSrv(prop string, r *common.Rand, tier string, o *common.Out, replay string) {
	if strings.HasPrefix(replay, "async|") {
		p := strings.Split(replay, "|")
		srvAsyncWrite(o, "replay", p[1] == "true", p[2])
		return
	}
	if strings.HasPrefix(replay, "refauth|") {
		p := strings.Split(replay, "|")
		opt := ""
		if len(p) > 3 {
			opt = p[3]
		}
		srvRefusedThenAuthOn(o, "replay", p[1] == "true", p[2] == "true", opt)
		return
	}
	if replay == "" && prop == "C04" {
		k := 0
		for _, ow := range []bool{false, true} {
			for _, between := range []bool{false, true} {
				k++
				srvRefusedThenAuth(o, fmt.Sprintf("refauth%d", k), ow, between)
				for _, opt := range []string{"pool", "async", "none", "none-pool"} {
					k++
					srvRefusedThenAuthOn(o, fmt.Sprintf("refauth%d", k), ow, between, opt)
				}
			}
		}
	}
	if strings.HasPrefix(replay, "gone|") {
		p := strings.Split(replay, "|")
		srvGoneClient(o, "replay", p[1] == "true", p[2] == "true", p[3])
		return
	}
	if strings.HasPrefix(replay, "qpool|") {
		p := strings.Split(replay, "|")
		var reqs []sreqCase
		for _, e := range strings.Split(p[1], ";") {
			reqs = append(reqs, decSreq(e))
		}
		var order []int
		for _, t := range strings.Split(p[2], ",") {
			n, _ := strconv.Atoi(t)
			order = append(order, n)
		}
		srvQueuedPool(o, "replay", reqs, order, prop != "C04")
		return
	}
	if replay != "" {
		p := strings.Split(replay, "|")
		nconn, _ := strconv.Atoi(p[1])
		var reqs []sreqCase
		for _, e := range strings.Split(p[3], ";") {
			reqs = append(reqs, decSreq(e))
		}
		var order []int
		for _, t := range strings.Split(p[4], ",") {
			if t != "" {
				n, _ := strconv.Atoi(t)
				order = append(order, n)
			}
		}
		srvRunCase(o, "replay", nconn, reqs, order, p[2] == "true", prop == "C07")
		return
	}
	// object-pool schedules: sync.Pool may hand back any object that was put.  With a single P it
	// hands back the one put last, which forces the interesting case deterministically: a request
	// reuses the argument / reply object of the previous request of the same type.
	if prop == "C04" || prop == "C20" {
		prev := runtime.GOMAXPROCS(1)
		rounds := 12
		if tier == "thorough" {
			rounds = 200
		}
		for i := 0; i < rounds; i++ {
			for _, style := range []string{"method", "pooled", "pooledv", "func", "funcp"} {
				mk := func(seq uint64, a, b int, omit, ow bool) sreqCase {
					return sreqCase{conn: 0, seq: seq, style: style, ser: 1, a: a, b: b, omitB: omit, ow: ow, mode: "ok"}
				}
				// one-way warm-up, two overlapping requests completed in reverse order, then a
				// fully filled request followed by one that leaves a field out
				reqs := []sreqCase{mk(1, 2+i, 3, false, true), mk(2, 4, 5+i, false, false), mk(3, 6, 7, false, false),
					mk(4, 2, 5+i, false, false), mk(5, 3, 9, true, false)}
				srvRunCase(o, fmt.Sprintf("pool%d%s", i, style), 1, reqs, []int{-1, 0, -2, -3, 2, 1, -4, 3, -5, 4}, false, false)
				o.Count("pool-reuse-schedule")
				// a request the pre-call plugin refuses (its argument and reply objects go back to their pools), then two
				// overlapping requests completed in reverse order, then one more
				vreqs := []sreqCase{mk(1, 2, 3+i, false, false), mk(2, 4+i, 5, false, false), mk(3, 6, 7+i, false, false), mk(4, 2+i, 9, true, false)}
				vreqs[0].mode = "veto"
				srvRunCase(o, fmt.Sprintf("poolv%d%s", i, style), 1, vreqs, []int{-1, -2, -3, 2, 1, -4, 3}, false, false)
				o.Count("pool-reuse-schedule")
				// a request whose arguments cannot be decoded (the codec fills some fields before it gives up), then one that
				// leaves a field out: what the failed decode left in the argument object is nobody's argument
				breqs := []sreqCase{mk(1, 4+3*i, 3, false, i%2 == 1), mk(2, 3+i, 9, true, false), mk(3, 2, 5+i, true, false)}
				breqs[0].badJSON = true
				srvRunCase(o, fmt.Sprintf("poolb%d%s", i, style), 1, breqs, []int{-1, -2, 1, -3, 2}, false, false)
				o.Count("pool-reuse-schedule")
				// the same after a request whose handler fails or panics - two-way and one-way: whatever path returns the
				// objects of a failed call to their pools, each goes back once
				for fi, first := range []struct {
					mode string
					ow   bool
				}{{"err", false}, {"err", true}, {"panic", false}, {"panic", true}} {
					if (i+fi)%2 != 0 {
						continue
					}
					freqs := []sreqCase{mk(1, 2, 3+i, false, first.ow), mk(2, 4+i, 5, false, false), mk(3, 6, 7+i, false, false), mk(4, 2+i, 9, true, false)}
					freqs[0].mode, freqs[0].text = first.mode, 1
					srvRunCase(o, fmt.Sprintf("poolf%d%s%d", i, style, fi), 1, freqs, []int{-1, 0, -2, -3, 2, 1, -4, 3}, false, false)
					o.Count("pool-reuse-schedule")
				}
			}
		}
		runtime.GOMAXPROCS(prev)
	}
	if prop == "C04" || prop == "C20" || prop == "C07" {
		k := 0
		for _, pool := range []bool{false, true} {
			for _, style := range []string{"method", "pooled", "func", "router"} {
				k++
				if prop != "C07" {
					srvAsyncWrite(o, fmt.Sprintf("async%d", k), pool, style)
				}
				if prop != "C20" {
					srvAsyncWrite(o, fmt.Sprintf("asyncf%d", k), pool, style+"!")
				}
				if prop != "C07" {
					srvGoneClient(o, fmt.Sprintf("gone%d", k), pool, k%2 == 1, style)
					srvGoneClient(o, fmt.Sprintf("gonew%d", k), pool, k%2 == 0, style)
				}
			}
		}
	}
	if prop == "C04" {
		nq := 24
		if tier == "thorough" {
			nq = 400
		}
		for i := 0; i < nq; i++ {
			k := 2 + r.Intn(3)
			var reqs []sreqCase
			for j := 0; j < k; j++ {
				q := genSreq("C04", r, 1) // some are refused by the connection loop (rate limit): answered at once, never queued
				q.conn = 0
				if q.style == "router" {
					q.style = "method"
				}
				if q.mode == "panic" || q.mode == "veto" {
					q.mode = "ok"
				}
				reqs = append(reqs, q)
			}
			order := make([]int, k)
			for j := range order {
				order[j] = j
			}
			if i%2 == 1 {
				for j := range order {
					x := j + r.Intn(k-j)
					order[j], order[x] = order[x], order[j]
				}
			}
			srvQueuedPool(o, fmt.Sprintf("qp%d", i), reqs, order, false)
		}
	}
	if prop == "C04" || prop == "C07" {
		// systematic matrix: every dispatch style x every way a request can end x one-way / two-way, each followed by
		// an ordinary request on the same connection (what a one-way request must NOT produce is a frame)
		k := 0
		for _, style := range []string{"method", "pooled", "pooledv", "func", "funcp", "funcv", "router", "nosvc", "nometh", "nomethqf", "nomethqm", "nomethe"} {
			for _, end := range []string{"ok", "err", "panic", "longpanic", "veto", "badjson", "nobody", "ser9", "limit", "auth"} {
				for _, ow := range []bool{false, true} {
					if end == "veto" && (style == "router" || style == "nosvc" || strings.HasPrefix(style, "nometh")) {
						continue
					}
					if (end == "limit" || end == "auth") && prop != "C04" {
						continue
					}
					q := sreqCase{conn: 0, seq: 41, style: style, ser: 1, a: 3, b: 4, mode: "ok", ow: ow}
					switch end {
					case "err", "panic":
						q.mode, q.text = end, 1
					case "longpanic":
						q.mode, q.text = "panic", 7
					case "veto", "limit", "auth":
						q.mode = end
					case "badjson":
						q.badJSON, q.a = true, 4
					case "nobody":
						q.badJSON, q.a = true, 3
					case "ser9":
						q.ser = 9
					}
					k++
					reqs := []sreqCase{q, {conn: 0, seq: 42, style: "method", ser: 1, a: 5, b: 6, mode: "ok"}}
					ord := []int{0, 1}
					if end == "auth" {
						// the connection is closed after the refusal: the ordinary request goes first and is completed first
						reqs = []sreqCase{reqs[1], q}
						ord = []int{-1, 0, -2, 1}
					}
					srvRunCase(o, fmt.Sprintf("mx%d", k), 1, reqs, ord, k%3 == 0, false)
					o.Count("style-by-ending-matrix")
				}
			}
		}
	}
	if prop == "C04" {
		// a heartbeat that names a target - of every dispatch style - is echoed and runs nothing, two-way or flagged one-way
		k := 0
		for _, style := range []string{"method", "pooled", "pooledv", "func", "funcp", "funcv", "router", "nosvc", "nometh", "nomethe"} {
			for _, ow := range []bool{false, true} {
				for _, pool := range []bool{false, true} {
					k++
					q := sreqCase{conn: 0, seq: 61, style: style, ser: 1, a: 6, b: 7, mode: "ok", hb: true, ow: ow}
					reqs := []sreqCase{q, {conn: 0, seq: 62, style: style, ser: 1, a: 5, b: 6, mode: "ok"}}
					srvRunCase(o, fmt.Sprintf("hbx%d", k), 1, reqs, []int{0, 1}, pool, false)
					o.Count("heartbeat-naming-a-target")
				}
			}
		}
	}
	n := 260
	if tier == "thorough" {
		n = 6000
	}
	if prop == "C20" {
		n = n / 4
	}
	for i := 0; i < n; i++ {
		nconn := 1 + r.Intn(3)
		k := 1 + r.Intn(6)
		var reqs []sreqCase
		for j := 0; j < k; j++ {
			reqs = append(reqs, genSreq(prop, r, nconn))
		}
		if prop == "C04" && r.Chance(12) {
			// a request that fails authentication, on a connection of its own (the server closes it), possibly after a
			// heartbeat carrying the same token (heartbeats are not authenticated)
			if r.Chance(40) {
				reqs = append(reqs, sreqCase{conn: nconn, seq: r.U64(), style: "method", ser: 1, hb: true, mode: "auth"})
			}
			aq := genSreq(prop, r, 1)
			aq.conn, aq.mode, aq.hb = nconn, "auth", false
			reqs = append(reqs, aq)
			nconn++
			k = len(reqs)
			o.Count("failed-authentication")
		}
		order := make([]int, k)
		for j := range order {
			order[j] = j
		}
		for j := range order {
			x := j + r.Intn(k-j)
			order[j], order[x] = order[x], order[j]
		}
		srvRunCase(o, fmt.Sprintf("q%d", i), nconn, reqs, order, i%4 == 3, prop == "C07" && i%3 == 0)
	}
}
