package main

// Forced-schedule rig for the real client (client.Client) — serves C03, C05 and C06.
//
// The harness owns the transport (client.ConnFactories["vsim"]): every Conn.Write blocks until the
// schedule releases it (ok / fail), every Read blocks until the schedule feeds bytes or an error.
// Registration is gated by the verif hook client.send.enter, the end of send() is observed through
// client.send.exit, argument encoding is gated by a MarshalJSON that blocks.  Each model event is
// released one at a time and its effect awaited (sentinel push frames prove the reader has
// processed everything fed before them), so the implementation runs exactly the schedule the model
// is given.

import (
	"bytes"
	"compress/gzip"
	"context"
	"encoding/binary"
	"errors"
	"fmt"
	"io"
	"net"
	"strconv"
	"strings"
	"sync"
	"time"

	"github.com/smallnest/rpcx/client"
	"github.com/smallnest/rpcx/protocol"
	"github.com/smallnest/rpcx/verifhook"

	"verifharness/internal/common"
	"verifharness/internal/refcodec"
)

func init() {
	props["C03"] = func(r *common.Rand, tier string, o *common.Out, replay string) { runCSM("C03", r, tier, o, replay) }
	props["C05"] = func(r *common.Rand, tier string, o *common.Out, replay string) { runCSM("C05", r, tier, o, replay) }
	props["C06"] = func(r *common.Rand, tier string, o *common.Out, replay string) { runCSM("C06", r, tier, o, replay) }
}

const stepTimeout = 3 * time.Second

// rawseq value that marks a Go call issued with an already expired context deadline
const expiredCtxMark = 999999

// ---------------- scripted transport ----------------
type writeReq struct {
	seq   uint64
	frame []byte
	reply chan error
}

type simConn struct {
	mu      sync.Mutex
	writes  chan *writeReq // write attempts announced to the schedule
	rdCh    chan []byte    // bytes fed to the reader
	rdErr   chan error     // a read error fed to the reader
	buf     []byte
	closed  bool
	closeCh chan struct{}
	wdl     time.Time // write deadline set on the connection (honoured like a real transport does)
}

func newSimConn() *simConn {
	return &simConn{writes: make(chan *writeReq, 64), rdCh: make(chan []byte, 64), rdErr: make(chan error, 1), closeCh: make(chan struct{})}
}

func (c *simConn) Write(b []byte) (int, error) {
	req := &writeReq{frame: append([]byte{}, b...), reply: make(chan error, 1)}
	if len(b) >= 12 {
		req.seq = binary.BigEndian.Uint64(b[4:12])
	}
	c.writes <- req
	if err := <-req.reply; err != nil {
		return 0, err
	}
	c.mu.Lock()
	dl := c.wdl
	c.mu.Unlock()
	if !dl.IsZero() && time.Now().After(dl) {
		return 0, errors.New("vsim: write failed: i/o timeout (the connection's write deadline has passed)")
	}
	return len(b), nil
}

// Read blocks until the schedule feeds bytes or an error.  Close does NOT unblock it: the schedule
// releases the read error explicitly (the reader goroutine may be scheduled arbitrarily late).
func (c *simConn) Read(p []byte) (int, error) {
	for len(c.buf) == 0 {
		select {
		case b := <-c.rdCh:
			c.buf = b
		case err := <-c.rdErr:
			return 0, err
		}
	}
	n := copy(p, c.buf)
	c.buf = c.buf[n:]
	return n, nil
}

func (c *simConn) Close() error {
	c.mu.Lock()
	defer c.mu.Unlock()
	if !c.closed {
		c.closed = true
		close(c.closeCh)
	}
	return nil
}
func (c *simConn) isClosed() bool {
	c.mu.Lock()
	defer c.mu.Unlock()
	return c.closed
}

type simAddr struct{}

func (simAddr) Network() string { return "vsim" }
func (simAddr) String() string  { return "vsim-peer" }

func (c *simConn) LocalAddr() net.Addr               { return simAddr{} }
func (c *simConn) RemoteAddr() net.Addr              { return simAddr{} }
func (c *simConn) SetDeadline(t time.Time) error     { return c.SetWriteDeadline(t) }
func (c *simConn) SetReadDeadline(t time.Time) error { return nil }
func (c *simConn) SetWriteDeadline(t time.Time) error {
	c.mu.Lock()
	c.wdl = t
	c.mu.Unlock()
	return nil
}

var (
	simMu    sync.Mutex
	simConns = map[string]*simConn{}
)

func init() {
	client.ConnFactories["vsim"] = func(c *client.Client, network, address string) (net.Conn, error) {
		simMu.Lock()
		defer simMu.Unlock()
		sc := simConns[address]
		if sc == nil {
			return nil, errors.New("vsim: no such peer")
		}
		return sc, nil
	}
}

// ---------------- gated argument ----------------
type gateArg struct {
	ID   int
	gate chan error // nil error: encode normally
	at   chan struct{}
}

func (g *gateArg) MarshalJSON() ([]byte, error) {
	g.at <- struct{}{}
	if err := <-g.gate; err != nil {
		return nil, err
	}
	return []byte(strconv.Itoa(g.ID)), nil
}

var errEncFail = errors.New("vsim: cannot encode argument")
var errWriteFail = errors.New("vsim: write failed")

// ---------------- schedule ----------------
type csmCall struct {
	kind   byte // G, C, R
	oneway bool
	rawseq uint64
}

type csmEvent struct {
	op string // reg rawreg encok encfail wok wfail ctx recv rderr close
	c  int
	// recv
	fid, text, payload               int
	seq                              uint64
	push, errStatus, meta, dec, code bool
	cut                              int  // rderr: feed this many bytes of a frame first (0: clean)
	eof                              bool // rderr
}

func (e csmEvent) enc() string {
	b := func(x bool) string {
		if x {
			return "1"
		}
		return "0"
	}
	switch e.op {
	case "recv":
		return fmt.Sprintf("recv:%d:%d:%s:%s:%s:%d:%d:%s:%s", e.fid, e.seq, b(e.push), b(e.errStatus), b(e.meta), e.text, e.payload, b(e.dec), b(e.code))
	case "rderr":
		return fmt.Sprintf("rderr:%s:%d", b(e.eof), e.cut)
	case "close":
		return "close"
	default:
		return fmt.Sprintf("%s:%d", e.op, e.c)
	}
}

func csmEncode(calls []csmCall, evs []csmEvent) string {
	var cs, es []string
	for _, c := range calls {
		o := "0"
		if c.oneway {
			o = "1"
		}
		cs = append(cs, fmt.Sprintf("%c:%s:%d", c.kind, o, c.rawseq))
	}
	for _, e := range evs {
		es = append(es, e.enc())
	}
	return strings.Join(cs, " ") + ";" + strings.Join(es, " ")
}

func csmDecode(s string) ([]csmCall, []csmEvent) {
	p := strings.SplitN(s, ";", 2)
	var calls []csmCall
	for _, t := range strings.Fields(p[0]) {
		f := strings.Split(t, ":")
		rs, _ := strconv.ParseUint(f[2], 10, 64)
		calls = append(calls, csmCall{kind: f[0][0], oneway: f[1] == "1", rawseq: rs})
	}
	var evs []csmEvent
	for _, t := range strings.Fields(p[1]) {
		f := strings.Split(t, ":")
		e := csmEvent{op: f[0]}
		atoi := func(s string) int { n, _ := strconv.Atoi(s); return n }
		switch f[0] {
		case "recv":
			e.fid = atoi(f[1])
			e.seq, _ = strconv.ParseUint(f[2], 10, 64)
			e.push, e.errStatus, e.meta = f[3] == "1", f[4] == "1", f[5] == "1"
			e.text, e.payload = atoi(f[6]), atoi(f[7])
			e.dec, e.code = f[8] == "1", f[9] == "1"
		case "rderr":
			e.eof = f[1] == "1"
			e.cut = atoi(f[2])
		case "close":
		default:
			e.c = atoi(f[1])
		}
		evs = append(evs, e)
	}
	return calls, evs
}

// ---------------- the rig ----------------
type callRT struct {
	spec      csmCall
	started   bool
	arg       *gateArg
	hookRel   chan struct{} // release of client.send.enter
	entered   chan struct{} // client.send.enter reached
	exited    chan struct{} // client.send.exit fired
	done      chan *client.Call
	ret       chan string // blocking callers: class of the returned error / payload
	cancel    context.CancelFunc
	reply     int
	breply    []byte
	wr        *writeReq // current gated write
	retVal    string
	hasRet    bool
	seq       int64 // registered seq (-1 unknown)
	phase     string
	ctxDone   bool // the harness ended this call's own context
	wroteOK   bool // the transport accepted this call's frame
	sendFail  bool // its arguments could not be encoded, or the transport refused its frame
	ctxAtSeq  bool // its context ended while it stood registered under its sequence number
	earlyResp bool // a raw call: a response for its sequence number arrived while its write was still pending
}

type rig struct {
	recvOpen   bool // frames were fed since the last barrier
	recvBefore map[uint64]bool
	bytesMode  bool // SerializeNone with []byte arguments and *[]byte replies (replies alias the decoded frame)
	cl         *client.Client
	conn       *simConn
	calls      []*callRT
	pushCh     chan *protocol.Message
	pushes     []int
	fedPush    []int // the payloads of the server messages fed to the reader, in order
	pushFail   bool
	modelEvs   []string
	fails      []string // oracle failures: "sig|detail"
	sentinel   int
	hookMu     sync.Mutex
	byMethod   map[string]*callRT
	readerUp   bool
	closedC    bool // Close() was called
	nextSeq    uint64
	fed        map[uint64][]csmEvent // non-push frames fed per seq, in order
}

func errClass(err error) string {
	switch {
	case err == nil:
		return "nil"
	case errors.Is(err, context.Canceled), errors.Is(err, context.DeadlineExceeded):
		return "ctx"
	case errors.Is(err, client.ErrShutdown):
		return "shutdown"
	case strings.Contains(err.Error(), "vsim: cannot encode"):
		return "enc"
	case strings.Contains(err.Error(), "vsim: write failed"):
		return "write"
	case err.Error() == client.ErrUnsupportedCodec.Error():
		return "codec"
	case strings.HasPrefix(err.Error(), "svc-e"):
		return "svc:" + strings.TrimPrefix(err.Error(), "svc-e")
	case strings.HasPrefix(err.Error(), "json:") || strings.Contains(err.Error(), "cannot unmarshal") || strings.Contains(err.Error(), "invalid character") || strings.Contains(err.Error(), "is not a *[]byte"):
		return "decode"
	default:
		return "conn"
	}
}

func newRig(id string, calls []csmCall, bytesMode bool) (*rig, error) {
	r := &rig{bytesMode: bytesMode, conn: newSimConn(), pushCh: make(chan *protocol.Message, 256), byMethod: map[string]*callRT{}, readerUp: true, fed: map[uint64][]csmEvent{}}
	addr := "peer-" + id
	simMu.Lock()
	simConns[addr] = r.conn
	simMu.Unlock()
	opt := client.DefaultOption
	opt.SerializeType = protocol.JSON
	if bytesMode {
		opt.SerializeType = protocol.SerializeNone
	}
	opt.Heartbeat = false
	// every other rig hands server messages over in blocking mode (the channel has room: nothing about the calls differs)
	opt.BidirectionalBlock = len(calls)%2 == 0
	r.cl = client.NewClient(opt)
	if err := r.cl.Connect("vsim", addr); err != nil {
		return nil, err
	}
	simMu.Lock()
	delete(simConns, addr)
	simMu.Unlock()
	// a connection-close plugin that reports an error: Close must close the connection nevertheless
	pc := client.NewPluginContainer()
	pc.Add(&closeErrPlugin{})
	// a before-encode plugin that reports an error for some requests: the client ignores the verdict of this
	// stage (the request is sent all the same), so nothing about those calls may differ
	pc.Add(&encVerdictPlugin{})
	r.cl.Plugins = pc
	r.cl.RegisterServerMessageChan(r.pushCh)
	for i, c := range calls {
		rt := &callRT{spec: c, hookRel: make(chan struct{}, 1), entered: make(chan struct{}, 1), exited: make(chan struct{}, 1), done: make(chan *client.Call, 10), ret: make(chan string, 1), seq: -1, phase: "new"}
		rt.arg = &gateArg{ID: i, gate: make(chan error, 1), at: make(chan struct{}, 1)}
		r.calls = append(r.calls, rt)
		r.byMethod[fmt.Sprintf("%s/m%d", id, i)] = rt
	}
	return r, nil
}

type encVerdictPlugin struct{}

func (encVerdictPlugin) ClientBeforeEncode(m *protocol.Message) error {
	if k := strings.LastIndex(m.ServiceMethod, "/m"); k >= 0 {
		if n, err := strconv.Atoi(m.ServiceMethod[k+2:]); err == nil && n%3 == 1 {
			return errors.New("the before-encode plugin reports an error")
		}
	}
	return nil
}

type closeErrPlugin struct{}

func (closeErrPlugin) ClientConnectionClose(net.Conn) error {
	return errors.New("the close plugin reports an error")
}

// global hook dispatch: calls are identified by their (unique) method name
var (
	hookRigsMu sync.Mutex
	hookRigs   = map[string]*callRT{}
)

func init() {
	verifhook.Set(func(point string, arg interface{}) {
		call, ok := arg.(*client.Call)
		if !ok {
			return
		}
		hookRigsMu.Lock()
		rt := hookRigs[call.ServiceMethod]
		hookRigsMu.Unlock()
		if rt == nil {
			return
		}
		switch point {
		case "client.send.enter":
			select {
			case rt.entered <- struct{}{}:
			default:
			}
			<-rt.hookRel
		case "client.send.exit":
			rt.exited <- struct{}{}
		}
	})
}

func (r *rig) fail(sig, detail string) { r.fails = append(r.fails, sig+"|"+detail) }

func waitOn(ch chan struct{}, what string) error {
	select {
	case <-ch:
		return nil
	case <-time.After(stepTimeout):
		return errors.New("timeout waiting for " + what)
	}
}

// start launches the caller of call i (it blocks at the registration gate / the write gate)
func (r *rig) start(id string, i int) {
	rt := r.calls[i]
	if rt.started {
		return
	}
	rt.started = true
	method := fmt.Sprintf("%s/m%d", id, i)
	hookRigsMu.Lock()
	hookRigs[method] = rt
	hookRigsMu.Unlock()
	ctx, cancel := context.WithCancel(context.Background())
	if rt.spec.kind == 'G' && rt.spec.rawseq == expiredCtxMark {
		// a Go call whose context carries a deadline that has already passed: Go does not look at the context,
		// so the call behaves like any other - and nothing about it may leak into the shared connection
		ctx, cancel = context.WithDeadline(context.Background(), time.Now().Add(-time.Hour))
	}
	rt.cancel = cancel
	var arg interface{} = rt.arg
	var replyPtr interface{} = &rt.reply
	if r.bytesMode {
		arg = []byte(strconv.Itoa(i))
		replyPtr = &rt.breply
	}
	switch rt.spec.kind {
	case 'G':
		reply := replyPtr
		if rt.spec.oneway {
			reply = nil
		}
		r.cl.Go(ctx, "Svc", method, arg, reply, rt.done)
	case 'C':
		go func() {
			var err error
			if rt.spec.oneway {
				err = r.cl.Call(ctx, "Svc", method, arg, nil)
			} else {
				err = r.cl.Call(ctx, "Svc", method, arg, replyPtr)
			}
			if err == nil {
				rt.ret <- "ok" // the reply value is read at the end of the run
			} else {
				rt.ret <- errClass(err)
			}
		}()
	case 'R':
		go func() {
			m := protocol.NewMessage()
			m.SetMessageType(protocol.Request)
			m.SetSeq(rt.spec.rawseq)
			m.SetOneway(rt.spec.oneway)
			m.SetSerializeType(protocol.JSON)
			m.ServicePath, m.ServiceMethod = "Svc", method
			m.Payload = []byte(strconv.Itoa(i))
			_, payload, err := r.cl.SendRaw(ctx, m)
			if err == nil {
				ps := strings.TrimSuffix(strings.TrimPrefix(string(payload), `"not-a-number-`), `"`)
				n, _ := strconv.Atoi(ps)
				rt.ret <- "ok:" + strconv.Itoa(n)
			} else {
				rt.ret <- errClass(err)
			}
		}()
	}
}

// awaitWrite waits for the next gated write and attributes it to a call by its sequence number
func (r *rig) awaitWrite(rt *callRT) error {
	select {
	case w := <-r.conn.writes:
		rt.wr = w
		return nil
	case <-time.After(stepTimeout):
		return errors.New("timeout waiting for the write of a call")
	}
}

func (r *rig) awaitRet(rt *callRT, i int, modelTake bool) {
	select {
	case v := <-rt.ret:
		rt.retVal, rt.hasRet = v, true
		if modelTake {
			r.modelEvs = append(r.modelEvs, fmt.Sprintf("take:%d", i))
		}
	case <-time.After(stepTimeout):
		r.fail("left-hanging", fmt.Sprintf("blocking call %d did not return although its completion was delivered", i))
	}
}

func buildResp(e csmEvent, bytesMode bool) []byte {
	var h [12]byte
	h[0] = 8
	binary.BigEndian.PutUint64(h[4:], e.seq)
	if e.push {
		h[2] = 0x20 // Request, one-way, not heartbeat
	} else {
		h[2] = 0x80 // Response
		if e.errStatus {
			h[2] |= 0x01
		}
	}
	ser := byte(1) // JSON
	if bytesMode {
		ser = 0
	}
	if !e.code {
		ser = 15
	}
	h[3] = ser << 4
	var meta []refcodec.KV
	if e.meta {
		meta = append(meta, refcodec.KV{K: []byte(protocol.ServiceError), V: []byte("svc-e" + strconv.Itoa(e.text))})
	}
	var payload []byte
	if e.push {
		payload = []byte(strconv.Itoa(e.fid))
		if e.fid%3 == 1 {
			// every third server message travels gzip-compressed: decoding must leave its flags (one-way) as they are
			var zb bytes.Buffer
			zw := gzip.NewWriter(&zb)
			zw.Write(payload)
			zw.Close()
			payload = zb.Bytes()
			h[2] |= 1 << 2
		}
	} else if e.payload != 0 {
		if e.dec {
			payload = []byte(strconv.Itoa(e.payload))
		} else {
			payload = []byte(`"not-a-number-` + strconv.Itoa(e.payload) + `"`)
		}
	}
	return refcodec.Build(h, []byte("Svc"), []byte("m"), meta, payload)
}

// barrier: a sentinel push fed after everything else; once it arrives the reader has processed all
// frames fed before it.  The sentinel is itself an event of the schedule (a server message).
func (r *rig) barrier() error {
	r.sentinel++
	fid := 100000 + r.sentinel
	e := csmEvent{op: "recv", fid: fid, seq: 424242, push: true, dec: true, code: true}
	r.conn.rdCh <- buildResp(e, r.bytesMode)
	r.modelEvs = append(r.modelEvs, e.enc())
	r.fedPush = append(r.fedPush, fid)
	deadline := time.After(stepTimeout)
	for {
		select {
		case m := <-r.pushCh:
			if m.MessageStatusType() == protocol.Error && m.Metadata["server"] != "" {
				continue // the reader's termination notice, not a server message
			}
			n, _ := strconv.Atoi(string(m.Payload))
			r.pushes = append(r.pushes, n)
			// C03: server messages are handed over in order, each with the payload that was sent
			if k := len(r.pushes) - 1; k < len(r.fedPush) && r.fedPush[k] != n && !r.pushFail {
				r.pushFail = true
				r.fail("push-changed", fmt.Sprintf("server message number %d on the channel carries payload %q; the peer sent %d as its %d-th server message", k+1, m.Payload, r.fedPush[k], k+1))
			}
			if n == fid {
				return nil
			}
		case <-deadline:
			return errors.New("timeout waiting for the sentinel push")
		}
	}
}

func (r *rig) waitShutdown() error {
	deadline := time.Now().Add(stepTimeout)
	for !r.cl.IsShutdown() {
		if time.Now().After(deadline) {
			return errors.New("timeout waiting for the reader to terminate")
		}
		time.Sleep(50 * time.Microsecond)
	}
	return nil
}

func (r *rig) pendingSet() map[uint64]bool {
	m := map[uint64]bool{}
	for _, k := range client.VerifPendingSeqs(r.cl) {
		m[k] = true
	}
	return m
}

// settle: a blocked caller (Call, or SendRaw after its two-way write) returns as soon as its call is
// completed.  Whether an event completed a call is read off the pending map (its entry was there
// before and is gone after), so the wait is definitive, not a guess.
func (r *rig) settle(before map[uint64]bool) {
	after := r.pendingSet()
	for i, c := range r.calls {
		if !c.started || c.hasRet || c.spec.kind == 'G' || c.seq < 0 {
			continue
		}
		if c.spec.kind == 'R' && (c.phase != "written" || c.spec.oneway) {
			continue
		}
		if before[uint64(c.seq)] && !after[uint64(c.seq)] {
			r.awaitRet(c, i, true)
		}
	}
}

// exec runs one event on the implementation; returns false if the event is not enabled (skipped)
func (r *rig) exec(id string, e csmEvent) (bool, error) {
	// consecutive frames are fed back to back; the barrier (sentinel push) comes only before the
	// next event of another kind, so that frames really follow each other in the reader
	if e.op != "recv" {
		if err := r.flushRecv(); err != nil {
			return false, err
		}
	} else if !r.recvOpen {
		r.recvBefore = r.pendingSet()
	}
	before := r.pendingSet()
	ran, err := r.exec1(id, e)
	if ran && err == nil && e.op != "ctx" && e.op != "recv" {
		r.settle(before)
	}
	return ran, err
}

func (r *rig) flushRecv() error {
	if !r.recvOpen {
		return nil
	}
	r.recvOpen = false
	if err := r.barrier(); err != nil {
		return err
	}
	r.settle(r.recvBefore)
	return nil
}

func (r *rig) exec1(id string, e csmEvent) (bool, error) {
	var rt *callRT
	if e.op != "recv" && e.op != "rderr" && e.op != "close" {
		if e.c < 0 || e.c >= len(r.calls) {
			return false, nil
		}
		rt = r.calls[e.c]
	}
	gone := r.closedC || !r.readerUp
	switch e.op {
	case "reg":
		if rt.spec.kind == 'R' || rt.phase != "new" {
			return false, nil
		}
		r.start(id, e.c)
		rt.hookRel <- struct{}{}
		r.modelEvs = append(r.modelEvs, e.enc())
		if gone {
			rt.phase = "done"
			if err := waitOn(rt.exited, "send to return after rejection"); err != nil {
				return true, err
			}
			if rt.spec.kind == 'C' && !rt.hasRet {
				r.awaitRet(rt, e.c, true) // rejected: the caller is signalled at once
			}
			return true, nil
		}
		rt.seq = int64(r.nextSeq)
		r.nextSeq++
		if r.bytesMode { // []byte arguments encode at once: the next gate is the write
			rt.phase = "enc"
			return true, r.awaitWrite(rt)
		}
		rt.phase = "reg"
		return true, waitOn(rt.arg.at, "the argument encoder")
	case "rawreg":
		if rt.spec.kind != 'R' || rt.phase != "new" {
			return false, nil
		}
		r.start(id, e.c)
		r.modelEvs = append(r.modelEvs, e.enc())
		rt.seq = int64(rt.spec.rawseq)
		rt.phase = "enc"
		return true, r.awaitWrite(rt)
	case "encfail":
		if rt.spec.kind == 'R' || rt.phase != "reg" {
			return false, nil
		}
		rt.arg.gate <- errEncFail
		rt.sendFail = true
		r.modelEvs = append(r.modelEvs, e.enc())
		rt.phase = "done"
		return true, waitOn(rt.exited, "send to return after the encode failure")
	case "encok": // not a model event: moves the call to its write gate
		if rt.spec.kind == 'R' || rt.phase != "reg" {
			return false, nil
		}
		rt.arg.gate <- nil
		rt.phase = "enc"
		return true, r.awaitWrite(rt)
	case "wok", "wfail":
		if rt.phase != "enc" || rt.wr == nil {
			return false, nil
		}
		if e.op == "wok" && r.conn.isClosed() {
			return false, nil
		}
		if uint64(rt.seq) != rt.wr.seq {
			r.fail("seq-mismatch", fmt.Sprintf("call %d was expected to be registered under seq %d but its frame carries %d", e.c, rt.seq, rt.wr.seq))
		}
		r.modelEvs = append(r.modelEvs, e.enc())
		if e.op == "wok" {
			rt.wroteOK = true
			rt.wr.reply <- nil
		} else {
			rt.sendFail = true
			rt.wr.reply <- errWriteFail
		}
		rt.wr = nil
		rt.phase = "written"
		if e.op == "wok" && rt.spec.oneway {
			r.modelEvs = append(r.modelEvs, fmt.Sprintf("ow:%d", e.c))
		}
		if rt.spec.kind != 'R' {
			if err := waitOn(rt.exited, "send to return after the write"); err != nil {
				return true, err
			}
		} else if e.op == "wfail" || rt.spec.oneway {
			r.awaitRet(rt, e.c, false)
		} else if rt.earlyResp {
			// the answer is already there when SendRaw reaches its select: it takes it at once
			r.awaitRet(rt, e.c, true)
		}
		return true, nil
	case "ctx":
		if rt.spec.kind == 'C' && !rt.started && rt.phase == "new" && !gone {
			// the caller's context ends before send has registered the call: start the call, wait until its
			// send goroutine stands at client.send.enter (nothing registered yet), then cancel
			r.start(id, e.c)
			if err := waitOn(rt.entered, "send to reach client.send.enter"); err != nil {
				return true, err
			}
		}
		if rt.spec.kind == 'G' || rt.hasRet || !rt.started {
			return false, nil
		}
		if rt.spec.kind == 'R' && (rt.phase != "written" || rt.spec.oneway) {
			return false, nil
		}
		rt.ctxAtSeq = rt.phase != "new"
		rt.cancel()
		rt.ctxDone = true
		r.modelEvs = append(r.modelEvs, e.enc())
		r.awaitRet(rt, e.c, false)
		return true, nil
	case "recv":
		if !r.readerUp {
			return false, nil
		}
		if r.bytesMode {
			e.dec = true // raw bytes always "decode"
		}
		r.conn.rdCh <- buildResp(e, r.bytesMode)
		r.modelEvs = append(r.modelEvs, e.enc())
		if !e.push {
			for _, c := range r.calls {
				if c.spec.kind == 'R' && c.phase == "enc" && c.seq >= 0 && uint64(c.seq) == e.seq {
					c.earlyResp = true
				}
			}
		}
		if !e.push {
			r.fed[e.seq] = append(r.fed[e.seq], e)
		} else {
			r.fedPush = append(r.fedPush, e.fid)
		}
		r.recvOpen = true
		return true, nil
	case "rderr":
		if !r.readerUp {
			return false, nil
		}
		eof := e.eof
		if e.cut > 0 {
			fr := buildResp(csmEvent{op: "recv", seq: 0, payload: 5, dec: true, code: true}, r.bytesMode)
			if e.cut >= len(fr) {
				e.cut = len(fr) - 1
			}
			r.conn.rdCh <- fr[:e.cut]
			eof = false
		}
		if r.closedC {
			eof = false
			r.conn.rdErr <- errors.New("vsim: use of closed connection")
		} else if eof {
			r.conn.rdErr <- io.EOF
		} else {
			r.conn.rdErr <- io.ErrUnexpectedEOF
		}
		if e.cut > 0 {
			// a cut inside the 12-byte header or the length field still surfaces as ErrUnexpectedEOF
		}
		b := "0"
		if eof {
			b = "1"
		}
		r.modelEvs = append(r.modelEvs, "rderr:"+b)
		r.readerUp = false
		if err := r.waitShutdown(); err != nil {
			return true, err
		}
		return true, nil
	case "close":
		r.cl.Close()
		// Close closes the connection, whatever its close plugins say
		if !r.conn.isClosed() {
			r.fail("close-leaves-connection-open", "Client.Close returned but the connection was not closed")
		}
		r.closedC = true
		r.modelEvs = append(r.modelEvs, "close")
		return true, nil
	}
	return false, nil
}

// finish drives the run to quiescence: close, terminate the reader, release every gate
func (r *rig) finish(id string) error {
	if err := r.flushRecv(); err != nil {
		return err
	}
	if !r.closedC {
		if _, err := r.exec(id, csmEvent{op: "close"}); err != nil {
			return err
		}
	}
	if r.readerUp {
		if _, err := r.exec(id, csmEvent{op: "rderr"}); err != nil {
			return err
		}
	}
	for i, c := range r.calls {
		if !c.started {
			continue
		}
		if c.phase == "new" && c.spec.kind != 'R' {
			if _, err := r.exec(id, csmEvent{op: "reg", c: i}); err != nil {
				return err
			}
		}
		if c.phase == "reg" {
			if _, err := r.exec(id, csmEvent{op: "encok", c: i}); err != nil {
				return err
			}
		}
		if c.phase == "enc" {
			if _, err := r.exec(id, csmEvent{op: "wfail", c: i}); err != nil {
				return err
			}
		}
	}
	// every blocking caller must have returned by now
	for i, c := range r.calls {
		if c.started && c.spec.kind != 'G' && !c.hasRet {
			select {
			case v := <-c.ret:
				c.retVal, c.hasRet = v, true
				r.modelEvs = append(r.modelEvs, fmt.Sprintf("take:%d", i))
			case <-time.After(stepTimeout):
				r.fail("left-hanging", fmt.Sprintf("blocking call %d never returned after the client was closed and the connection lost", i))
			}
		}
	}
	return nil
}

// replyOf reads the caller's reply value - at the end of the run, i.e. after every later frame
func (r *rig) replyOf(c *callRT) int {
	if r.bytesMode {
		n, _ := strconv.Atoi(string(c.breply))
		return n
	}
	return c.reply
}

func (r *rig) observe() string {
	var parts []string
	for i, c := range r.calls {
		switch c.spec.kind {
		case 'G':
			n := 0
			last := "-"
			for {
				select {
				case cl := <-c.done:
					n++
					if cl.Error == nil {
						last = "ok:" + strconv.Itoa(r.replyOf(c))
					} else {
						last = errClass(cl.Error)
					}
					continue
				default:
				}
				break
			}
			if n > 1 {
				r.fail("double-signal", fmt.Sprintf("call %d was signalled %d times on its Done channel", i, n))
			}
			if c.started && c.phase != "new" && n == 0 {
				r.fail("left-hanging", fmt.Sprintf("call %d was started but never completed", i))
			}
			parts = append(parts, fmt.Sprintf("G:%d:%s", n, last))
		case 'C':
			v := "-"
			if c.hasRet {
				v = c.retVal
				if v == "ok" {
					v = "ok:" + strconv.Itoa(r.replyOf(c))
				}
			}
			if c.hasRet && v == "ctx" && c.ctxAtSeq && r.replyOf(c) != 0 {
				// Call gave its caller the context's error while the call stood registered under its sequence number:
				// that number is completed - a response that carries it afterwards must not write into the caller's reply
				// (a call whose context ended before it was given a number is registered afterwards all the same: not this)
				r.fail("completed-call-altered", fmt.Sprintf("call %d returned its context's error; afterwards its reply value was written (%d) by a response carrying its completed sequence number", i, r.replyOf(c)))
			}
			parts = append(parts, "C:ret="+v)
		case 'R':
			v := "-"
			if c.hasRet {
				v = c.retVal
			}
			parts = append(parts, "R:ret="+v)
		}
		// C03/C06 oracle: a call completed with a reply got the payload the script attached to its seq
		_ = i
	}
	var ps []string
	for _, p := range r.pushes {
		ps = append(ps, strconv.Itoa(p))
	}
	b := func(x bool) string {
		if x {
			return "1"
		}
		return "0"
	}
	return fmt.Sprintf("%s | pushes=%s pending=%d shutdown=%s closing=%s", strings.Join(parts, " "), strings.Join(ps, ","),
		client.VerifPendingLen(r.cl), b(r.cl.IsShutdown()), b(r.cl.IsClosing()))
}

// replyOracle: for every call that ended with "ok:<n>", n must be the payload of the first decodable
// normal frame fed for its seq while it was the pending one (the script's reply for that call)
func (r *rig) replyOracle(obs string) {
	fields := strings.Fields(strings.SplitN(obs, " | ", 2)[0])
	for i, c := range r.calls {
		if i >= len(fields) || c.seq < 0 {
			continue
		}
		f := fields[i]
		k := strings.Index(f, "ok:")
		if k < 0 {
			continue
		}
		n, _ := strconv.Atoi(f[k+3:])
		okPayloads := map[int]bool{0: c.spec.oneway}
		for _, e := range r.fed[uint64(c.seq)] {
			if !e.errStatus || !e.meta {
				okPayloads[e.payload] = true
			}
		}
		if !okPayloads[n] {
			r.fail("wrong-reply", fmt.Sprintf("call %d (seq %d) completed with reply %d, which no response frame for its own sequence number carried", i, c.seq, n))
		}
	}
}

func csmRunOne(o *common.Out, id string, calls []csmCall, evs []csmEvent, finish bool, bytesMode bool) {
	abstract := csmEncode(calls, evs)
	if bytesMode {
		abstract = "B;" + abstract
	} else {
		abstract = "J;" + abstract
	}
	o.Begin(id, abstract)
	if bytesMode {
		o.Count("codec=raw-bytes")
	} else {
		o.Count("codec=json")
	}
	r, err := newRig(id, calls, bytesMode)
	if err != nil {
		o.Fail(id, "rig", err.Error(), abstract)
		return
	}
	torn := false
	for _, e := range evs {
		wasUp := !r.cl.IsShutdown()
		ran, err := r.exec(id, e)
		if err != nil {
			r.fail("left-hanging", fmt.Sprintf("event %s: %v", e.enc(), err))
			break
		}
		// C06: no event of a call and no received frame may tear the connection down
		if ran && wasUp && e.op != "rderr" && e.op != "close" && r.cl.IsShutdown() {
			torn = true
			r.fail("connection-torn-down", fmt.Sprintf("event %s shut the client down", e.enc()))
			r.readerUp = false
			break
		}
	}
	if finish || torn || len(r.fails) > 0 {
		if err := r.finish(id); err != nil {
			r.fail("left-hanging", "finishing: "+err.Error())
		}
	}
	obs := r.observe()
	r.replyOracle(obs)
	// isolation oracle (C05/C06): only a call whose own context ended may complete with a context error
	for i, f := range strings.Fields(strings.SplitN(obs, " | ", 2)[0]) {
		if i < len(r.calls) && strings.HasSuffix(f, "ctx") && !r.calls[i].ctxDone {
			r.fail("foreign-ctx-error", fmt.Sprintf("call %d completed with a context error although its own context never ended", i))
		}
		if i < len(r.calls) && r.calls[i].seq >= 0 {
			// a call's outcome is its own: a decode / codec error only for a response to its own sequence number that
			// cannot be decoded / names an unknown codec; success only if its frame went out or its answer came in
			var ownUndecodable, ownUnknownCodec, ownAnswer bool
			for _, e := range r.fed[uint64(r.calls[i].seq)] {
				ownUndecodable = ownUndecodable || !e.dec || (r.calls[i].spec.oneway && e.payload > 0) // nothing decodes into a nil reply
				ownUnknownCodec = ownUnknownCodec || !e.code
				ownAnswer = true
			}
			if strings.HasSuffix(f, "decode") && !ownUndecodable {
				r.fail("foreign-decode-error", fmt.Sprintf("call %d completed with a decode error although every response to its own sequence number could be decoded (another call's error)", i))
			}
			if strings.HasSuffix(f, "codec") && !ownUnknownCodec {
				r.fail("foreign-decode-error", fmt.Sprintf("call %d completed with an unknown-codec error although no response to its own sequence number named one (another call's error)", i))
			}
			if strings.Contains(f, "ok:") && r.calls[i].sendFail && !ownAnswer {
				r.fail("success-without-send", fmt.Sprintf("call %d completed successfully although its request was never sent (encoding or the transport write failed) and nothing answered it", i))
			}
		}
		if i < len(r.calls) && strings.HasSuffix(f, "write") && r.calls[i].wroteOK {
			r.fail("foreign-write-failure", fmt.Sprintf("call %d failed with a write error although the transport accepted its frame (state left on the shared connection by another call)", i))
		}
	}
	// model input: the calls and the events that actually ran
	var cs []string
	for _, c := range calls {
		ow := "0"
		if c.oneway {
			ow = "1"
		}
		cs = append(cs, fmt.Sprintf("%c:%s:%d", c.kind, ow, c.rawseq))
	}
	seen := map[string]bool{}
	for _, f := range r.fails {
		p := strings.SplitN(f, "|", 2)
		if !seen[f] {
			seen[f] = true
			o.Fail(id, p[0], p[1], abstract)
		}
	}
	o.Case(id, strings.Join(cs, " ")+";"+strings.Join(r.modelEvs, " "), obs, len(calls) >= 2 || len(evs) >= 4)
	// release resources of this run
	hookRigsMu.Lock()
	for m, rt := range r.byMethod {
		_ = rt
		delete(hookRigs, m)
	}
	hookRigsMu.Unlock()
}

// ---------------- generators ----------------
func genRecv(r *common.Rand, fid int, seq uint64, flavour int) csmEvent {
	e := csmEvent{op: "recv", fid: fid, seq: seq, dec: true, code: true, payload: 10 + r.Intn(80)}
	switch flavour {
	case 1: // service error
		e.errStatus, e.meta, e.text, e.payload = true, true, 1+r.Intn(50), 0
	case 2: // reply of the wrong type
		e.dec = false
	case 3: // unknown codec
		e.code = false
	case 4: // empty payload
		e.payload = 0
	case 5: // server push carrying this seq
		e.push = true
		e.payload = 0
	case 6: // service error that also carries a reply
		e.errStatus, e.meta, e.text = true, true, 1+r.Intn(50)
	case 7: // service error that carries a reply of the wrong type (the best-effort decode fails: this call only)
		e.errStatus, e.meta, e.text, e.dec = true, true, 1+r.Intn(50), false
	}
	return e
}

func genSchedule(prop string, r *common.Rand) ([]csmCall, []csmEvent) {
	n := 1 + r.Intn(5)
	if prop == "C06" {
		n = 2 + r.Intn(2)
	}
	var calls []csmCall
	for i := 0; i < n; i++ {
		k := byte('G')
		switch r.Intn(10) {
		case 0, 1, 2:
			k = 'C'
		case 3:
			k = 'R'
		}
		c := csmCall{kind: k, oneway: r.Chance(12)}
		if k == 'R' {
			c.rawseq = uint64(1000 + i)
		}
		if k == 'G' && r.Chance(15) {
			c.rawseq = expiredCtxMark
		}
		calls = append(calls, c)
	}
	// event program: each call advances through its own steps; global events are sprinkled in between
	type prog struct{ steps []string }
	progs := make([]prog, n)
	for i, c := range calls {
		var st []string
		if c.kind == 'R' {
			st = []string{"rawreg"}
		} else {
			st = []string{"reg"}
			if r.Chance(12) {
				st = append(st, "encfail")
			} else {
				st = append(st, "encok")
			}
		}
		if len(st) == 0 || st[len(st)-1] != "encfail" {
			if r.Chance(12) {
				st = append(st, "wfail")
			} else {
				st = append(st, "wok")
			}
		}
		progs[i] = prog{st}
	}
	var evs []csmEvent
	fid := 1
	pos := make([]int, n)
	regOrder := []int{}
	remaining := func() int {
		t := 0
		for i := range progs {
			t += len(progs[i].steps) - pos[i]
		}
		return t
	}
	seqOf := func(i int) (uint64, bool) {
		if calls[i].kind == 'R' {
			return calls[i].rawseq, pos[i] > 0
		}
		for k, c := range regOrder {
			if c == i {
				return uint64(k), true
			}
		}
		return 0, false
	}
	closedOrDead := false
	for steps := 0; steps < 60 && (remaining() > 0 || r.Chance(60)); steps++ {
		x := r.Intn(100)
		switch {
		case x < 50 && remaining() > 0:
			i := r.Intn(n)
			for pos[i] >= len(progs[i].steps) {
				i = (i + 1) % n
			}
			op := progs[i].steps[pos[i]]
			pos[i]++
			if op == "reg" && !closedOrDead {
				regOrder = append(regOrder, i)
			}
			evs = append(evs, csmEvent{op: op, c: i})
		case x < 78: // a frame
			var seq uint64 = 7777
			flavour := []int{0, 0, 0, 0, 1, 2, 3, 4, 5, 6, 7}[r.Intn(11)]
			if r.Chance(80) {
				i := r.Intn(n)
				if s, ok := seqOf(i); ok {
					seq = s
				}
			}
			if calls[0].kind == 'R' && (flavour == 1 || flavour == 6 || flavour == 7) {
				flavour = 0
			}
			evs = append(evs, genRecv(r, fid, seq, flavour))
			fid++
		case x < 86: // cancel a blocking caller
			i := r.Intn(n)
			evs = append(evs, csmEvent{op: "ctx", c: i})
		case x < 91:
			evs = append(evs, csmEvent{op: "close"})
			closedOrDead = true
		case x < 95:
			e := csmEvent{op: "rderr", eof: r.Bool()}
			if r.Chance(50) {
				e.cut = []int{1, 5, 12, 14, 16, 20, 30}[r.Intn(7)]
			}
			evs = append(evs, e)
			closedOrDead = true
		}
	}
	return calls, evs
}

// exhaustive response permutations for k <= 5 calls, with stray insertions (C03)
func permutations(k int) [][]int {
	if k == 0 {
		return [][]int{{}}
	}
	var out [][]int
	for _, p := range permutations(k - 1) {
		for pos := 0; pos <= len(p); pos++ {
			q := append([]int{}, p[:pos]...)
			q = append(q, k-1)
			q = append(q, p[pos:]...)
			out = append(out, q)
		}
	}
	return out
}

func runCSM(prop string, r *common.Rand, tier string, o *common.Out, replay string) {
	if strings.HasPrefix(replay, "xiso|") {
		p := strings.Split(replay, "|")
		m, _ := strconv.Atoi(p[1])
		c06xRun(o, "replay", client.FailMode(m), p[2])
		return
	}
	if strings.HasPrefix(replay, "codeciso|") {
		p := strings.Split(replay, "|")
		sr, _ := strconv.Atoi(p[1])
		nf, _ := strconv.Atoi(p[2])
		c06Codec(o, "replay", protocol.SerializeType(sr), nf)
		return
	}
	if strings.HasPrefix(replay, "real|") {
		c06Real(o, "replay", strings.TrimPrefix(replay, "real|"))
		return
	}
	if replay == "" && prop == "C06" {
		for i, so := range []string{"", "async", "pool", "async+pool"} {
			c06Real(o, fmt.Sprintf("%s-real%d", prop, i), so)
		}
		c06xAll(o, prop)
		k := 0
		for _, ser := range []protocol.SerializeType{protocol.JSON, protocol.MsgPack} {
			for _, nf := range []int{0, 1, 2} {
				k++
				c06Codec(o, fmt.Sprintf("%s-codec%d", prop, k), ser, nf)
			}
		}
	}
	if strings.HasPrefix(replay, "winddown|") {
		csmWindDown(o, "replay", strings.Split(replay, "|")[1])
		return
	}
	if replay == "" && prop == "C05" {
		csmWindDown(o, prop+"-wind1", "go")
		csmWindDown(o, prop+"-wind2", "call")
	}
	if strings.HasPrefix(replay, "late|") {
		p := strings.Split(replay, "|")
		n, _ := strconv.Atoi(p[2])
		csmLateCompletion(o, "replay", p[1], n)
		return
	}
	if replay == "" {
		k := 0
		for _, kind := range []string{"raw-err", "call-err", "call-ok"} {
			for _, n := range []int{1, 3} {
				k++
				csmLateCompletion(o, fmt.Sprintf("%s-late%d", prop, k), kind, n)
			}
		}
	}
	if replay != "" {
		bm := strings.HasPrefix(replay, "B;")
		calls, evs := csmDecode(replay[2:])
		csmRunOne(o, "replay", calls, evs, true, bm)
		return
	}
	id := 0
	next := func() string { id++; return fmt.Sprintf("%s-%d-%d", prop, time.Now().UnixNano()%1000000, id) }
	type job struct {
		calls []csmCall
		evs   []csmEvent
	}
	var jobs []job
	if prop == "C05" {
		// a call without reply (one-way) whose send fails - arguments that cannot be encoded, a write the transport
		// refuses - completes once, with that error; alone and next to an ordinary call
		for _, kind := range []byte{'G', 'C'} {
			for _, failure := range []string{"encfail", "wfail"} {
				for _, other := range []bool{false, true} {
					calls := []csmCall{{kind: kind, oneway: true}}
					evs := []csmEvent{{op: "reg", c: 0}}
					if failure == "encfail" {
						evs = append(evs, csmEvent{op: "encfail", c: 0})
					} else {
						evs = append(evs, csmEvent{op: "encok", c: 0}, csmEvent{op: "wfail", c: 0})
					}
					if other {
						calls = append(calls, csmCall{kind: 'G'})
						evs = append(evs, csmEvent{op: "reg", c: 1}, csmEvent{op: "encok", c: 1}, csmEvent{op: "wok", c: 1}, genRecv(r, 70, 1, 0))
					}
					jobs = append(jobs, job{calls, evs})
				}
			}
		}
	}
	if prop == "C03" {
		maxK := 4
		if tier == "thorough" {
			maxK = 5
		}
		for k := 1; k <= maxK; k++ {
			for pi, perm := range permutations(k) {
				var calls []csmCall
				var evs []csmEvent
				for i := 0; i < k; i++ {
					kind := byte('G')
					if (i+pi)%3 == 1 {
						kind = 'C'
					}
					if (i+pi)%5 == 4 {
						kind = 'R'
					}
					c := csmCall{kind: kind}
					if kind == 'R' {
						c.rawseq = uint64(1000 + i)
					}
					calls = append(calls, c)
				}
				regs := 0
				seqs := make([]uint64, k)
				for i := 0; i < k; i++ {
					if calls[i].kind == 'R' {
						evs = append(evs, csmEvent{op: "rawreg", c: i}, csmEvent{op: "wok", c: i})
						seqs[i] = calls[i].rawseq
					} else {
						evs = append(evs, csmEvent{op: "reg", c: i}, csmEvent{op: "encok", c: i}, csmEvent{op: "wok", c: i})
						seqs[i] = uint64(regs)
						regs++
					}
				}
				fid := 1
				for j, ci := range perm {
					// strays before the real response: a push with the call's seq, an unknown seq
					if (pi+j)%2 == 0 {
						evs = append(evs, genRecv(r, fid, seqs[ci], 5))
						fid++
					}
					if (pi+j)%3 == 0 {
						evs = append(evs, genRecv(r, fid, 5555, 0))
						fid++
					}
					fl := 0
					if (pi+j)%7 == 3 && calls[ci].kind != 'R' {
						fl = 1
					}
					evs = append(evs, genRecv(r, fid, seqs[ci], fl))
					fid++
					if (pi+j)%4 == 1 { // duplicate of an already completed seq
						evs = append(evs, genRecv(r, fid, seqs[ci], 0))
						fid++
					}
				}
				jobs = append(jobs, job{calls, evs})
			}
		}
	}
	if prop == "C06" {
		// exhaustive: victim first / later x aggressor behaviour x order of the aggressor's step and the victim's response
		aggr := []string{"ctx-before-reg", "ctx-after-reg", "ctx-after-write", "encfail", "mistyped", "oneway", "svcerr", "svcerr-mistyped", "unknown-codec", "wfail", "expired-deadline"}
		for _, victimFirst := range []bool{true, false} {
			for _, a := range aggr {
				for order := 0; order < 6; order++ {
					emptyVictim := order >= 3
					if emptyVictim && a != "mistyped" && a != "svcerr" && a != "svcerr-mistyped" && a != "unknown-codec" {
						continue
					}
					order := order % 3
					calls := []csmCall{{kind: 'G'}, {kind: 'C'}}
					v, ag := 0, 1
					if !victimFirst {
						calls = []csmCall{{kind: 'C'}, {kind: 'G'}}
						v, ag = 1, 0
					}
					if a == "oneway" {
						calls[ag].oneway = true
					}
					if a == "expired-deadline" {
						// the aggressor is a Go call whose context deadline has passed; the victim is the blocking Call
						calls = []csmCall{{kind: 'C'}, {kind: 'G', rawseq: expiredCtxMark}}
						v, ag = 0, 1
						if !victimFirst {
							calls = []csmCall{{kind: 'G', rawseq: expiredCtxMark}, {kind: 'C'}}
							v, ag = 1, 0
						}
					}
					var evs []csmEvent
					vreg := []csmEvent{{op: "reg", c: v}, {op: "encok", c: v}, {op: "wok", c: v}}
					var areg []csmEvent
					switch a {
					case "ctx-before-reg":
						areg = []csmEvent{{op: "ctx", c: ag}, {op: "reg", c: ag}, {op: "encok", c: ag}, {op: "wok", c: ag}}
					case "ctx-after-reg":
						areg = []csmEvent{{op: "reg", c: ag}, {op: "ctx", c: ag}, {op: "encok", c: ag}, {op: "wok", c: ag}}
					case "ctx-after-write":
						areg = []csmEvent{{op: "reg", c: ag}, {op: "encok", c: ag}, {op: "wok", c: ag}, {op: "ctx", c: ag}}
					case "encfail":
						areg = []csmEvent{{op: "reg", c: ag}, {op: "encfail", c: ag}}
					case "wfail":
						areg = []csmEvent{{op: "reg", c: ag}, {op: "encok", c: ag}, {op: "wfail", c: ag}}
					default:
						areg = []csmEvent{{op: "reg", c: ag}, {op: "encok", c: ag}, {op: "wok", c: ag}}
					}
					vseq, aseq := uint64(0), uint64(1)
					if !victimFirst {
						// the aggressor registers first only if its reg precedes the victim's
					}
					var afr []csmEvent
					switch a {
					case "mistyped":
						afr = []csmEvent{genRecv(r, 50, 0, 2)}
					case "svcerr":
						afr = []csmEvent{genRecv(r, 50, 0, 1)}
					case "svcerr-mistyped":
						afr = []csmEvent{genRecv(r, 50, 0, 7)}
					case "unknown-codec":
						afr = []csmEvent{genRecv(r, 50, 0, 3)}
					}
					vresp := genRecv(r, 60, 0, 0)
					if emptyVictim {
						vresp = genRecv(r, 60, 0, 4) // a successful response without payload: the victim's reply is reset, its error nil
					}
					switch order {
					case 0: // victim registers first
						evs = append(append(evs, vreg...), areg...)
						vseq, aseq = 0, 1
					case 1: // aggressor first
						evs = append(append(evs, areg...), vreg...)
						vseq, aseq = 1, 0
						if a == "ctx-before-reg" {
							vseq, aseq = 1, 0
						}
					default: // interleaved
						evs = append(evs, vreg[0], areg[0])
						evs = append(evs, vreg[1:]...)
						evs = append(evs, areg[1:]...)
						if areg[0].op == "ctx" {
							vseq, aseq = 0, 1
						} else {
							vseq, aseq = 0, 1
						}
					}
					for i := range afr {
						afr[i].seq = aseq
					}
					vresp.seq = vseq
					evs = append(evs, afr...)
					evs = append(evs, vresp)
					jobs = append(jobs, job{calls, evs})
				}
			}
		}
	}
	n := 350
	if tier == "thorough" {
		n = 8000
	}
	for i := 0; i < n; i++ {
		calls, evs := genSchedule(prop, r)
		jobs = append(jobs, job{calls, evs})
	}
	for ji, j := range jobs {
		csmRunOne(o, next(), j.calls, j.evs, true, ji%3 == 1)
		o.Count(fmt.Sprintf("calls=%d", len(j.calls)))
	}
}
