package main

import (
	"context"
	"fmt"
	"net/url"
	"sort"
	"strconv"
	"strings"
	"sync"
	"net"
	"sync/atomic"
	"time"

	"github.com/smallnest/rpcx/client"
	"github.com/smallnest/rpcx/protocol"

	"verifharness/internal/common"
)

func init() { props["C14"] = runC14 }

var c14seq int64

var c14Groups = []string{"blue", "green", "red"}

// interning shared with the model: keys state=1 group=2 other=3; values inactive=1 blue=2 green=3 red=4 other=5+
func internVal(v string) int {
	switch v {
	case "inactive":
		return 1
	case "blue":
		return 2
	case "green":
		return 3
	case "red":
		return 4
	case "active":
		return 5
	case "":
		return 6
	default:
		return 7
	}
}

func internGroup(g string) int {
	if g == "" {
		return 0
	}
	return internVal(g)
}

// what url.ParseQuery makes of the metadata, in the model's vocabulary
func parsedSpec(meta string) string {
	v, err := url.ParseQuery(meta)
	if err != nil {
		return "E"
	}
	var kvs []string
	for _, s := range v["state"] {
		kvs = append(kvs, fmt.Sprintf("1=%d", internVal(s)))
	}
	for _, g := range v["group"] {
		kvs = append(kvs, fmt.Sprintf("2=%d", internVal(g)))
	}
	for k, vals := range v {
		if k != "state" && k != "group" {
			for range vals {
				kvs = append(kvs, "3=7")
			}
		}
	}
	if len(kvs) == 0 {
		return "-"
	}
	return strings.Join(kvs, ",")
}

func genMeta(r *common.Rand) string {
	var parts []string
	switch r.Intn(6) {
	case 0:
		parts = append(parts, "state=inactive")
	case 1:
		parts = append(parts, "state=active")
	case 2:
		parts = append(parts, "state=")
	}
	for k := 0; k < r.Intn(3); k++ {
		parts = append(parts, "group="+c14Groups[r.Intn(len(c14Groups))])
	}
	if r.Chance(35) {
		parts = append(parts, "weight="+[]string{"3", "1", "0", "2", "-1"}[r.Intn(5)])
	}
	if r.Chance(8) {
		parts = append(parts, "state=inactive") // a second state value: only the first counts
	}
	if r.Chance(4) {
		return "%zz" // unparsable
	}
	if r.Chance(16) {
		// spellings that only a faithful query parser reads correctly
		parts = append(parts, []string{"st%61te=inactive", "state=in%61ctive", "state=inactive;x=1", "x=1;state=inactive", "group=" + c14Groups[0] + "+x",
			"gr%6fup=" + c14Groups[1], "state", "&&", "=inactive", "state=Inactive", "group", "%zz=1",
			// group names are compared byte for byte: another case, a trailing space, an escape of the same name
			"group=Blue", "group=BLUE", "group=green+", "group=%62lue", "Group=blue", "group=Green"}[r.Intn(18)])
	}
	for i := range parts {
		j := i + r.Intn(len(parts)-i)
		parts[i], parts[j] = parts[j], parts[i]
	}
	return strings.Join(parts, "&")
}

type snap map[string]string

func genSnap(r *common.Rand) snap {
	s := snap{}
	n := r.Intn(7)
	for i := 0; i < n; i++ {
		s[fmt.Sprintf("vsrv@d%d", r.Intn(8))] = genMeta(r)
	}
	if r.Chance(15) {
		// a drained set: every server that is still announced carries weight 0
		for k, v := range s {
			if v != "%zz" && !strings.Contains(v, "weight=") {
				s[k] = strings.TrimPrefix(v+"&weight=0", "&")
			} else if v != "%zz" {
				s[k] = "weight=0"
			}
		}
	}
	return s
}

// c14Weight: the weight the weighted strategy gives a server (first weight value; missing or unparsable = 1; negative = 0)
func c14Weight(meta string) int {
	v, err := url.ParseQuery(meta)
	if err != nil {
		return 1
	}
	w := v.Get("weight")
	if w == "" {
		return 1
	}
	n, err := strconv.Atoi(w)
	if err != nil {
		return 1
	}
	if n < 0 {
		return 0
	}
	return n
}

func (s snap) pairs() []*client.KVPair {
	keys := make([]string, 0, len(s))
	for k := range s {
		keys = append(keys, k)
	}
	sort.Strings(keys)
	var out []*client.KVPair
	for _, k := range keys {
		out = append(out, &client.KVPair{Key: k, Value: s[k]})
	}
	return out
}

func (s snap) modelSpec() string {
	keys := make([]string, 0, len(s))
	for k := range s {
		keys = append(keys, k)
	}
	sort.Strings(keys)
	var out []string
	for _, k := range keys {
		out = append(out, fmt.Sprintf("%s:%s", k[len("vsrv@d"):], parsedSpec(s[k])))
	}
	if len(out) == 0 {
		return "-"
	}
	return strings.Join(out, ";")
}

// direct reading of the property: not inactive, and member of the group when one is configured
func (s snap) expect(group string) []string {
	var out []string
	for k, meta := range s {
		v, err := url.ParseQuery(meta)
		if err != nil {
			out = append(out, k) // outside the quantifier (malformed metadata): the entry is left alone
			continue
		}
		if v.Get("state") == "inactive" {
			continue
		}
		if group != "" {
			found := false
			for _, g := range v["group"] {
				if g == group {
					found = true
				}
			}
			if !found {
				continue
			}
		}
		out = append(out, k)
	}
	sort.Strings(out)
	return out
}

func idsOf(keys []string) string {
	var ids []int
	for _, k := range keys {
		n, _ := strconv.Atoi(k[len("vsrv@d"):])
		ids = append(ids, n)
	}
	sort.Ints(ids)
	if len(ids) == 0 {
		return "-"
	}
	ss := make([]string, len(ids))
	for i, x := range ids {
		ss[i] = strconv.Itoa(x)
	}
	return strings.Join(ss, ",")
}

func mapKeys(m map[string]string) []string {
	out := make([]string, 0, len(m))
	for k := range m {
		out = append(out, k)
	}
	sort.Strings(out)
	return out
}

// a selector that can stall the watch loop (UpdateServer blocks while the gate is closed)
type gateSel struct {
	mu      sync.Mutex
	gate    chan struct{}
	stalled chan struct{}
	last    map[string]string
	n       int
}

func (g *gateSel) Select(ctx context.Context, p, m string, a interface{}) string { return "" }
func (g *gateSel) UpdateServer(servers map[string]string) {
	g.mu.Lock()
	gate := g.gate
	g.mu.Unlock()
	if gate != nil {
		select {
		case g.stalled <- struct{}{}:
		default:
		}
		<-gate
	}
	g.mu.Lock()
	g.last = servers
	g.n++
	g.mu.Unlock()
}

var modes = []client.SelectMode{client.RandomSelect, client.RoundRobin, client.WeightedRoundRobin, client.ConsistentHash}

// publish hands a snapshot to the discovery.  inPlace: when the snapshot names the same servers as the one published
// before, the caller edits the records it published (the slice GetServices returns) and publishes them again - a
// registry client that keeps one record per server does exactly that.
func publish(d *client.MultipleServersDiscovery, next []*client.KVPair, inPlace bool) {
	if inPlace {
		cur := d.GetServices()
		same := len(cur) == len(next) && len(cur) > 0
		for i := range cur {
			if same && cur[i].Key != next[i].Key {
				same = false
			}
		}
		if same {
			for i := range cur {
				cur[i].Value = next[i].Value
			}
			d.Update(cur)
			return
		}
	}
	d.Update(next)
}

// waitServers waits until the client holds exactly the servers [want] WITH the metadata of [last] (the watch loop
// replaces the set and updates the selector under one lock, so the selector has then seen this snapshot too)
func waitServers(xc client.XClient, want []string, last snap) bool {
	deadline := time.Now().Add(2 * time.Second)
	for {
		gm := client.VerifXClientServers(xc)
		got := mapKeys(gm)
		same := strings.Join(got, ",") == strings.Join(want, ",")
		for _, k := range want {
			if same && gm[k] != last[k] {
				same = false
			}
		}
		if same {
			return true
		}
		if time.Now().After(deadline) {
			return false
		}
		time.Sleep(200 * time.Microsecond)
	}
}

// one history: initial set, then bursts of publications (optionally with the watch loop stalled)
func c14History(o *common.Out, id string, r *common.Rand, group string, mode int, stall bool, hist []snap, bursts []int) {
	// the whole history is in the case line, so that a failure replays: hist|group|mode|stall|bursts|snap#snap#...
	var hs []string
	for _, sn := range hist {
		hs = append(hs, sn.enc())
	}
	var bs []string
	for _, b := range bursts {
		bs = append(bs, strconv.Itoa(b))
	}
	abstract := fmt.Sprintf("hist|%s|%d|%v|%s|%s", group, mode, stall, strings.Join(bs, ","), strings.Join(hs, "#"))
	o.Begin(id, abstract)
	d, _ := client.NewMultipleServersDiscovery(hist[0].pairs())
	opt := client.DefaultOption
	opt.Group = group
	opt.SerializeType = protocol.JSON
	var xc client.XClient
	var gs *gateSel
	if stall {
		xc = client.NewXClient("Svc", client.Failfast, client.SelectByUser, d, opt)
		gs = &gateSel{stalled: make(chan struct{}, 1)}
		xc.SetSelector(gs)
	} else {
		xc = client.NewXClient("Svc", client.Failfast, modes[mode%len(modes)], d, opt)
	}
	defer xc.Close()
	var model []string
	model = append(model, "conv")
	idx := 1
	var obs []string
	for _, b := range bursts {
		if idx >= len(hist) {
			break
		}
		if stall {
			gs.mu.Lock()
			gs.gate = make(chan struct{})
			gs.mu.Unlock()
		}
		first := true
		for k := 0; k < b && idx < len(hist); k++ {
			publish(d, hist[idx].pairs(), !stall && idx%2 == 0)
			model = append(model, fmt.Sprintf("P%d", idx))
			if stall && first {
				// the watch loop takes the first snapshot of the burst and stalls applying it
				select {
				case <-gs.stalled:
					model = append(model, "C")
				case <-time.After(2 * time.Second):
				}
				first = false
			}
			idx++
		}
		if stall {
			gs.mu.Lock()
			close(gs.gate)
			gs.gate = nil
			gs.mu.Unlock()
		}
		last := hist[idx-1]
		want := last.expect(group)
		if !waitServers(xc, want, last) {
			got := mapKeys(client.VerifXClientServers(xc))
			o.Fail(id, "not-converged", fmt.Sprintf("after update %d stopped, the client selects among %v; the last published set, filtered for group %q, is %v", idx-1, got, group, want), abstract)
		}
		// which published snapshot is the applied one?  (identify by content)
		got := client.VerifXClientServers(xc)
		applied := -1
		for j := idx - 1; j >= 0; j-- {
			if strings.Join(mapKeys(got), ",") == strings.Join(hist[j].expect(group), ",") {
				applied = j
				break
			}
		}
		obs = append(obs, strconv.Itoa(applied))
		// selections come from the applied set only
		if !stall {
			for k := 0; k < 40; k++ {
				s := client.VerifXClientSelect(xc, "Svc", "M", k)
				if s == "" {
					eligible := want
					if modes[mode%len(modes)] == client.WeightedRoundRobin {
						// the weighted strategy never picks a server whose weight is 0
						eligible = nil
						for _, w := range want {
							if c14Weight(last[w]) > 0 {
								eligible = append(eligible, w)
							}
						}
					}
					if len(eligible) > 0 {
						o.Fail(id, "empty-selection", fmt.Sprintf("selector returned nothing although %v are eligible", eligible), abstract)
						break
					}
					continue
				}
				ok := false
				for _, w := range want {
					if w == s {
						ok = true
					}
				}
				if !ok {
					o.Fail(id, "selected-stale-server", fmt.Sprintf("selected %s, not in the last published (filtered) set %v", s, want), abstract)
					break
				}
			}
		}
	}
	// only the final convergence is compared with the model (intermediate ones depend on identical contents)
	final := "none"
	if len(obs) > 0 {
		final = strconv.Itoa(idx - 1)
		if obs[len(obs)-1] != final {
			// identical content to an earlier snapshot is fine: report the canonical (latest) index if contents match
			if strings.Join(hist[idx-1].expect(group), ",") == strings.Join(mapKeys(client.VerifXClientServers(xc)), ",") {
				obs[len(obs)-1] = final
			}
		}
		final = obs[len(obs)-1]
	}
	o.Case(id, strings.Join(model, " "), final, len(hist) > 2)
	o.Count(fmt.Sprintf("stalled=%v", stall))
}

func (s snap) enc() string {
	var enc []string
	for k, v := range s {
		enc = append(enc, k+"~"+url.QueryEscape(v))
	}
	sort.Strings(enc)
	return strings.Join(enc, ";")
}

func parseSnap(t string) snap {
	s := snap{}
	for _, e := range strings.Split(t, ";") {
		if e == "" {
			continue
		}
		kv := strings.SplitN(e, "~", 2)
		m, _ := url.QueryUnescape(kv[1])
		s[kv[0]] = m
	}
	return s
}

// c14Shared: n clients watch ONE discovery (a client pool, OneClient); some are closed, in a given order; every client
// that is still open follows the updates published afterwards.  case: shared|n|closed,closed,...
func c14Shared(o *common.Out, id string, n int, closeOrder []int) {
	var cs []string
	for _, c := range closeOrder {
		cs = append(cs, strconv.Itoa(c))
	}
	abstract := fmt.Sprintf("shared|%d|%s", n, strings.Join(cs, ","))
	o.Begin(id, abstract)
	s0 := snap{"vsrv@d0": "", "vsrv@d1": ""}
	d, _ := client.NewMultipleServersDiscovery(s0.pairs())
	opt := client.DefaultOption
	xcs := make([]client.XClient, n)
	for i := range xcs {
		xcs[i] = client.NewXClient("Svc", client.Failfast, client.RoundRobin, d, opt)
	}
	open := map[int]bool{}
	for i := range xcs {
		open[i] = true
	}
	defer func() {
		for i, xc := range xcs {
			if open[i] {
				xc.Close()
			}
		}
	}()
	check := func(step string, s snap) {
		want := s.expect("")
		for i, xc := range xcs {
			if open[i] && !waitServers(xc, want, s) {
				o.Fail(id, "not-converged", fmt.Sprintf("%s: client %d of %d sharing one discovery (closed so far: %v) still selects among %v; the last published set is %v", step, i, n, closeOrder, mapKeys(client.VerifXClientServers(xc)), want), abstract)
				return
			}
		}
	}
	s1 := snap{"vsrv@d1": "", "vsrv@d2": "", "vsrv@d3": ""}
	d.Update(s1.pairs())
	check("first update", s1)
	for k, c := range closeOrder {
		xcs[c].Close()
		open[c] = false
		sk := snap{fmt.Sprintf("vsrv@d%d", 4+k): "", "vsrv@d1": ""}
		d.Update(sk.pairs())
		check(fmt.Sprintf("update after closing client %d", c), sk)
		// Close unregisters its watcher in a goroutine of its own: publish once more when that has happened
		time.Sleep(3 * time.Millisecond)
		sk2 := snap{fmt.Sprintf("vsrv@d%d", 4+k): "weight=2", "vsrv@d6": ""}
		d.Update(sk2.pairs())
		check(fmt.Sprintf("second update after closing client %d", c), sk2)
	}
	o.ImplOnly(id, abstract, true)
	o.Count("shared-discovery")
}

// a user selector that takes what it is given: round-robin over the sorted keys of the last set, every set reported
type c14Sel struct {
	mu   sync.Mutex
	keys []string
	i    int
	sets chan string
}

func (s *c14Sel) Select(ctx context.Context, p, m string, a interface{}) string {
	s.mu.Lock()
	defer s.mu.Unlock()
	if len(s.keys) == 0 {
		return ""
	}
	k := s.keys[s.i%len(s.keys)]
	s.i++
	return k
}
func (s *c14Sel) UpdateServer(servers map[string]string) {
	var ks []string
	for k := range servers {
		ks = append(ks, k)
	}
	sort.Strings(ks)
	s.mu.Lock()
	s.keys, s.i = ks, 0
	s.mu.Unlock()
	select {
	case s.sets <- strings.Join(ks, ","):
	default:
	}
}
func (s *c14Sel) current() string { s.mu.Lock(); defer s.mu.Unlock(); return strings.Join(s.keys, ",") }

// a ClientConnected plugin of the XClient (it runs after the client has released its lock, before the call goes on): the
// first connection publishes an update and waits until the selector has been given it
type c14ConnHook struct {
	once    sync.Once
	publish func()
	want    string
	sets    chan string
	stuck   bool
}

func (h *c14ConnHook) ClientConnected(conn net.Conn) (net.Conn, error) {
	h.once.Do(func() {
		h.publish()
		deadline := time.After(4 * time.Second)
		for {
			select {
			case s := <-h.sets:
				if s == h.want {
					return
				}
			case <-deadline:
				h.stuck = true
				return
			}
		}
	})
	return conn, nil
}

// c14DuringRetry: a discovery update arrives and is applied just when a call that failed on one server has connected to the next one
// (fail-over; or, without any failure, to its only one): the call may finish where it is, but afterwards the client selects from the last published
// set and from nothing else.  Oracle only.  case: retry|<fail mode>
func c14DuringRetry(o *common.Out, id string, mode string) {
	abstract := "retry|" + mode
	o.Begin(id, abstract)
	o.Count("update-during-a-retry")
	uid := atomic.AddInt64(&c14seq, 1)
	a, b, c := fmt.Sprintf("c14f-%d-a", uid), fmt.Sprintf("c14f-%d-b", uid), fmt.Sprintf("c14f-%d-c", uid)
	fb := &fakeServer{id: 1, fixed: "ok22"}
	registerFake(a, &fakeServer{id: 0, dials: []bool{false, false, false, false, false, false, false, false}})
	registerFake(b, fb)
	registerFake(c, &fakeServer{id: 2, fixed: "ok33"})
	defer func() { unregisterFake(a); unregisterFake(b); unregisterFake(c) }()
	first := []*client.KVPair{{Key: "vsrv@" + a}, {Key: "vsrv@" + b}}
	fm := client.Failover
	if mode == "failfast" {
		// no failure at all: the only server's dial is the one that is held
		first, fm = first[1:], client.Failfast
	}
	d, _ := client.NewMultipleServersDiscovery(first)
	opt := client.DefaultOption
	opt.SerializeType = protocol.JSON
	opt.Heartbeat = false
	opt.Retries = 3
	xc := client.NewXClient("Svc", fm, client.SelectByUser, d, opt)
	defer xc.Close()
	sel := &c14Sel{sets: make(chan string, 64)}
	xc.SetSelector(sel)
	for len(sel.sets) > 0 {
		<-sel.sets
	}
	want := "vsrv@" + c
	hook := &c14ConnHook{publish: func() { d.Update([]*client.KVPair{{Key: want}}) }, want: want, sets: sel.sets}
	pc := client.NewPluginContainer()
	pc.Add(hook)
	xc.SetPlugins(pc)
	{
		reply := -1
		ctx, cancel := context.WithTimeout(context.Background(), 10*time.Second)
		err := xc.Call(ctx, "M", 1, &reply)
		cancel()
		if err != nil || reply != 22 {
			o.Fail(id, "rig", fmt.Sprintf("the call that was under way when the update arrived: reply %d, %v", reply, err), abstract)
			return
		}
	}
	if hook.stuck {
		o.Fail(id, "rig", "the update never reached the selector", abstract)
		return
	}
	if cur := sel.current(); cur != want {
		o.Fail(id, "stale-set", fmt.Sprintf("an update arrived while a %s call was connecting to its next server; afterwards the selector holds {%s}, the last published set is {%s}", mode, cur, want), abstract)
	}
	for i := 0; i < 4; i++ {
		reply := -1
		ctx, cancel := context.WithTimeout(context.Background(), 5*time.Second)
		err := xc.Call(ctx, "M", 1, &reply)
		cancel()
		if err != nil || reply != 33 {
			o.Fail(id, "stale-set", fmt.Sprintf("call %d after the update was answered with %d (%v): the only server of the last published set answers 33", i, reply, err), abstract)
			break
		}
	}
	o.ImplOnly(id, abstract, true)
}

func runC14(r *common.Rand, tier string, o *common.Out, replay string) {
	if strings.HasPrefix(replay, "retry|") {
		c14DuringRetry(o, "replay", strings.TrimPrefix(replay, "retry|"))
		return
	}
	if replay == "" {
		for i := 0; i < 3; i++ {
			c14DuringRetry(o, fmt.Sprintf("rt%d", i), "failover")
		}
		c14DuringRetry(o, "rt3", "failfast")
	}
	if strings.HasPrefix(replay, "shared|") {
		p := strings.Split(replay, "|")
		n, _ := strconv.Atoi(p[1])
		var order []int
		for _, t := range strings.Split(p[2], ",") {
			if t != "" {
				c, _ := strconv.Atoi(t)
				order = append(order, c)
			}
		}
		c14Shared(o, "replay", n, order)
		return
	}
	if replay == "" {
		k := 0
		for _, n := range []int{2, 3, 4} {
			for _, perm := range permutations(n) {
				for cut := 1; cut < n; cut++ {
					if n == 4 && (cut != 2 || k%2 == 0) {
						k++
						continue
					}
					k++
					c14Shared(o, fmt.Sprintf("sh%d", k), n, perm[:cut])
				}
			}
		}
	}
	if replay != "" && strings.HasPrefix(replay, "flt|") {
		p := strings.SplitN(replay, "|", 3)
		c14Filter(o, "replay", p[1], parseSnap(p[2]))
		return
	}
	if replay != "" && strings.HasPrefix(replay, "hist|") {
		p := strings.SplitN(replay, "|", 6)
		mode, _ := strconv.Atoi(p[2])
		var bursts []int
		for _, b := range strings.Split(p[4], ",") {
			n, _ := strconv.Atoi(b)
			bursts = append(bursts, n)
		}
		var hist []snap
		for _, t := range strings.Split(p[5], "#") {
			hist = append(hist, parseSnap(t))
		}
		c14History(o, "replay", r, p[1], mode, p[3] == "true", hist, bursts)
		return
	}
	nf := 1200
	nh := 120
	if tier == "thorough" {
		nf, nh = 30000, 2500
	}
	for i := 0; i < nf; i++ {
		group := ""
		if r.Chance(65) {
			group = c14Groups[r.Intn(2)]
		}
		c14Filter(o, fmt.Sprintf("f%d", i), group, genSnap(r))
	}
	for i := 0; i < nh; i++ {
		group := ""
		if r.Chance(50) {
			group = c14Groups[r.Intn(2)]
		}
		k := 2 + r.Intn(14)
		hist := []snap{genSnap(r)}
		for j := 1; j < k; j++ {
			s := genSnap(r)
			if r.Chance(35) { // same keys, metadata changed only
				s = snap{}
				for key := range hist[j-1] {
					s[key] = genMeta(r)
				}
			}
			hist = append(hist, s)
		}
		stall := i%2 == 0
		var bursts []int
		for rem := k - 1; rem > 0; {
			b := 1 + r.Intn(rem)
			if stall && r.Chance(50) {
				b = rem
			}
			bursts = append(bursts, b)
			rem -= b
		}
		mode := i / 2 // every strategy serves stalled and free-running histories alike
		if !stall && i%8 == 3 && len(hist) >= 2 {
			// weighted strategy: a set with positive weights, then a drained one (a non-empty subset of it, every
			// weight 0) as a burst of its own: nothing is eligible any more, and the servers that left must be gone
			mode = 2
			full := snap{}
			for k := 0; k < 2+r.Intn(4); k++ {
				full[fmt.Sprintf("vsrv@d%d", k)] = "weight=" + strconv.Itoa(1+r.Intn(3))
			}
			drained := snap{}
			for k := range full {
				if len(drained) == 0 || r.Chance(40) {
					drained[k] = "weight=0"
				}
			}
			if len(drained) == len(full) {
				for k := range drained {
					delete(drained, k)
					break
				}
			}
			hist = append(hist, full, drained)
			bursts = append(bursts, 1, 1)
		}
		c14History(o, fmt.Sprintf("h%d", i), r, group, mode, stall, hist, bursts)
	}
}

func c14Filter(o *common.Out, id, group string, s snap) {
	var enc []string
	for k, v := range s {
		enc = append(enc, k+"~"+url.QueryEscape(v))
	}
	sort.Strings(enc)
	abstract := "flt|" + group + "|" + strings.Join(enc, ";")
	o.Begin(id, abstract)
	got := mapKeys(client.VerifFilterByStateAndGroup(group, s))
	want := s.expect(group)
	if strings.Join(got, ",") != strings.Join(want, ",") {
		o.Fail(id, "filter", fmt.Sprintf("group %q: kept %v, the property keeps %v", group, got, want), abstract)
	}
	// through a real client as well: initial set filtered at construction
	d, _ := client.NewMultipleServersDiscovery(s.pairs())
	opt := client.DefaultOption
	opt.Group = group
	xc := client.NewXClient("Svc", client.Failfast, client.RoundRobin, d, opt)
	got2 := mapKeys(client.VerifXClientServers(xc))
	xc.Close()
	if strings.Join(got2, ",") != strings.Join(want, ",") {
		o.Fail(id, "filter-at-construction", fmt.Sprintf("group %q: a new client selects among %v, the property allows %v", group, got2, want), abstract)
	}
	o.Case(id, fmt.Sprintf("flt %d %s", internGroup(group), s.modelSpec()), idsOf(got), len(s) >= 2)
	// the same with the raw metadata strings: the model parses them itself (its own url.ParseQuery)
	var raw, kept []string
	for _, k := range mapKeys(s) {
		raw = append(raw, hx([]byte(k))+"~"+hx([]byte(s[k])))
	}
	for _, k := range got {
		kept = append(kept, hx([]byte(k)))
	}
	sort.Strings(kept)
	rs, ks := "-", "-"
	if len(raw) > 0 {
		rs = strings.Join(raw, ";")
	}
	if len(kept) > 0 {
		ks = strings.Join(kept, ",")
	}
	o.Case(id+"r", fmt.Sprintf("fltraw %s %s", hx([]byte(group)), rs), ks, len(s) >= 2)
	o.Count("filter")
}
