// vh: the correspondence / oracle harness.  Built with -tags verif against /repo's working tree.
//   vh -prop C12 -seed 1 -tier quick -out /verif/work/C12
//   vh -prop C12 -replay '<abstract case>'
package main

import (
	"flag"
	"runtime"
	"runtime/debug"
	"fmt"
	"os"

	rlog "github.com/smallnest/rpcx/log"

	"verifharness/internal/common"
)

type propFn func(r *common.Rand, tier string, o *common.Out, replay string)

var props = map[string]propFn{}

func main() {
	prop := flag.String("prop", "", "property id")
	seed := flag.Uint64("seed", 1, "seed")
	tier := flag.String("tier", "quick", "quick|thorough")
	out := flag.String("out", "", "output directory")
	replay := flag.String("replay", "", "abstract case to replay (prints observables)")
	onep := flag.Bool("onep", false, "run on one P with rare garbage collections: whatever the code under test recycles through sync.Pool is handed to the very next taker")
	flag.Parse()
	if *onep {
		runtime.GOMAXPROCS(1)
		debug.SetGCPercent(4000)
	}
	rlog.SetDummyLogger() // the library's own log lines are not observables
	fn, ok := props[*prop]
	if !ok {
		fmt.Fprintln(os.Stderr, "unknown property", *prop)
		os.Exit(2)
	}
	if *out == "" {
		*out, _ = os.MkdirTemp("", "vh")
		defer os.RemoveAll(*out)
	}
	o := common.NewOut(*out)
	fn(common.NewRand(*seed), *tier, o, *replay)
	o.Close()
	if *replay != "" {
		b, _ := os.ReadFile(*out + "/impl.txt")
		os.Stdout.Write(b)
		b, _ = os.ReadFile(*out + "/oracle.txt")
		os.Stdout.Write(b)
		if o.OracleFail > 0 {
			os.Exit(1)
		}
	}
}
