package main

import (
	"strconv"
	"time"
	"context"
	"fmt"
	"github.com/smallnest/rpcx/protocol"
	"runtime"
	"sort"
	"strings"
	"sync"
	"sync/atomic"

	jump "github.com/dgryski/go-jump"
	"github.com/smallnest/rpcx/client"

	"verifharness/internal/common"
)

func init() { props["C13"] = runC13 }

func names(ids []int) map[string]string {
	m := map[string]string{}
	// the metadata a server announces (weights, also zero and negative, state, group) says nothing to this strategy:
	// every announced server is on the ring
	for _, i := range ids {
		meta := ""
		switch i % 6 {
		case 1:
			meta = "weight=0"
		case 2:
			meta = "weight=3&group=g"
		case 4:
			meta = "weight=-1"
		}
		m[fmt.Sprintf("s%02d", i)] = meta
	}
	return m
}

func sortedNames(m map[string]string) []string {
	out := make([]string, 0, len(m))
	for k := range m {
		out = append(out, k)
	}
	sort.Strings(out)
	return out
}

func chSelect(sel client.Selector, args string) string {
	r := sel.Select(context.Background(), "Arith", "Mul", args)
	if r == "" {
		return "-"
	}
	return r
}

type c13Req struct{ K string }

// abstract case: ch13|<nkeys>|<instances>|U:ids|U:ids...   (each update is a set of numeric ids)
func c13Run(o *common.Out, id string, nkeys, instances int, updates [][]int) {
	var parts []string
	for _, u := range updates {
		ss := make([]string, len(u))
		for i, x := range u {
			ss[i] = fmt.Sprint(x)
		}
		parts = append(parts, "U:"+strings.Join(ss, ","))
	}
	abstract := fmt.Sprintf("ch13|%d|%d|%s", nkeys, instances, strings.Join(parts, "|"))
	o.Begin(id, abstract)
	o.Count("hash-history")
	keys := make([]string, nkeys)
	for i := range keys {
		keys[i] = fmt.Sprintf("key-%d", i*7919+len(updates))
		k := i % 7
		if i >= 14 && k != 6 {
			k = 0 // a few long keys per history are enough (the model hashes them byte by byte)
		}
		switch k {
		case 3: // arguments whose rendering is longer than a kilobyte (around 1 KiB and beyond), between ordinary ones
			keys[i] += strings.Repeat("x", 1000+i%30)
		case 5:
			keys[i] += strings.Repeat("long-argument-", 100)
		case 6:
			keys[i] = "" // and no argument text at all
		}
	}
	var model strings.Builder
	model.WriteString("ch")
	var obs []string
	// (ii) independently constructed selectors from the first set must agree
	first := names(updates[0])
	sels := make([]client.Selector, instances)
	for i := range sels {
		m := map[string]string{} // a fresh map each time: fresh iteration order
		for k, v := range first {
			m[k] = v
		}
		sels[i] = client.VerifNewSelector(client.ConsistentHash, m)
	}
	sel := sels[0]
	for _, k := range keys {
		r0 := chSelect(sel, k)
		for i := 1; i < instances; i++ {
			if r := chSelect(sels[i], k); r != r0 {
				o.Fail(id, "instances-disagree", fmt.Sprintf("two selectors built from the same %d servers map key %q to %s and %s", len(first), k, r0, r), abstract)
				i = instances
			}
		}
	}
	// the arguments as a pointer to a struct the caller fills in again for every request (the usual loop): the
	// mapping depends on what the arguments ARE, not on where they are kept
	reused := &c13Req{}
	viaReused := make([]string, len(keys))
	for i, k := range keys {
		reused.K = k // consecutive requests through the same struct
		viaReused[i] = sel.Select(context.Background(), "Arith", "Mul", reused)
	}
	for i, k := range keys {
		if b := sel.Select(context.Background(), "Arith", "Mul", &c13Req{K: k}); viaReused[i] != b {
			o.Fail(id, "unstable", fmt.Sprintf("the same arguments {K:%q} mapped to %s when passed in a struct the caller reuses for consecutive requests and to %s in a fresh one (server set unchanged)", k, viaReused[i], b), abstract)
			break
		}
	}
	cur := first
	prev := map[string]string{}
	for ui, u := range updates {
		m := names(u)
		if ui > 0 {
			sel.UpdateServer(m)
			// every independently built client receives the same update (each from a map of its own): they still agree
			for i := 1; i < instances; i++ {
				sels[i].UpdateServer(names(u))
			}
			for _, k := range keys {
				r0 := chSelect(sel, k)
				for i := 1; i < instances; i++ {
					if r := chSelect(sels[i], k); r != r0 {
						o.Fail(id, "instances-disagree", fmt.Sprintf("two clients built from the same set and given the same updates (the last one to %d servers) map key %q to %s and %s", len(m), k, r0, r), abstract)
						i = instances
					}
				}
			}
		}
		// the model gets the names rotated (its own sort must undo that)
		ns := sortedNames(m)
		if len(ns) > 1 {
			ns = append(ns[1:], ns[0])
		}
		model.WriteString(" U:" + strings.Join(ns, ","))
		pureAddition := ui > 0 && len(cur) > 0
		for k := range cur {
			if _, ok := m[k]; !ok {
				pureAddition = false
			}
		}
		sameSet := ui > 0 && len(cur) == len(m) && pureAddition
		now := map[string]string{}
		for _, k := range keys {
			r := chSelect(sel, k)
			now[k] = r
			obs = append(obs, r)
			model.WriteString(" K:" + hx([]byte("/Arith/Mul/"+k)))
			// (i) stable while the set is unchanged
			if r2 := chSelect(sel, k); r2 != r {
				o.Fail(id, "unstable", fmt.Sprintf("key %q mapped to %s then %s with no update in between", k, r, r2), abstract)
			}
			if sameSet && prev[k] != r {
				o.Fail(id, "reannounce-moves-key", fmt.Sprintf("re-announcing the identical set moved key %q from %s to %s", k, prev[k], r), abstract)
			}
			// (iii) pure additions: old server or one of the new ones
			if pureAddition && !sameSet && prev[k] != r {
				if _, old := cur[r]; old || r == "-" {
					o.Fail(id, "addition-not-monotone", fmt.Sprintf("servers were only added, yet key %q moved from %s to the old server %s", k, prev[k], r), abstract)
				}
			}
		}
		prev = now
		cur = m
	}
	o.Case(id, model.String(), strings.Join(obs, " "), len(updates) > 1 || len(updates[0]) > 1)
}

// an argument value whose String method gives up the processor while the key is being rendered: the same key
// must come out whatever other selections are going on at that moment
type c13YieldArg struct{ s string }

func (a c13YieldArg) String() string {
	runtime.Gosched()
	return a.s
}

// c13Concurrent: g clients (one selector each, built from the same n servers) select concurrently; every key maps
// to the server it maps to when nothing else is running.  case: conc|n|g|iters
func c13Concurrent(o *common.Out, id string, n, g, iters int) {
	abstract := fmt.Sprintf("conc|%d|%d|%d", n, g, iters)
	o.Begin(id, abstract)
	ids := make([]int, n)
	for i := range ids {
		ids[i] = i
	}
	sels := make([]client.Selector, g)
	for i := range sels {
		sels[i] = client.VerifNewSelector(client.ConsistentHash, names(ids))
	}
	const nk = 24
	want := make([][]string, g)
	for gi := range sels {
		want[gi] = make([]string, nk)
		for k := 0; k < nk; k++ {
			want[gi][k] = sels[gi].Select(context.Background(), "Arith", "Mul", c13YieldArg{fmt.Sprintf("key-%d-%d", gi, k)})
		}
	}
	var mu sync.Mutex
	bad := ""
	var wg sync.WaitGroup
	for gi := range sels {
		wg.Add(1)
		go func(gi int) {
			defer wg.Done()
			for it := 0; it < iters; it++ {
				for k := 0; k < nk; k++ {
					got := sels[gi].Select(context.Background(), "Arith", "Mul", c13YieldArg{fmt.Sprintf("key-%d-%d", gi, k)})
					if got != want[gi][k] {
						mu.Lock()
						if bad == "" {
							bad = fmt.Sprintf("with %d clients selecting concurrently, key %q mapped to %s; alone it maps to %s (server set unchanged)", g, fmt.Sprintf("key-%d-%d", gi, k), got, want[gi][k])
						}
						mu.Unlock()
						return
					}
				}
			}
		}(gi)
	}
	wg.Wait()
	if bad != "" {
		o.Fail(id, "unstable", bad, abstract)
	}
	o.ImplOnly(id, abstract, true)
	o.Count("concurrent-clients")
}

// an argument that is sent to the server and whose rendering (the routing key) yields the processor
type c13KeyArg struct{ K string }

func (a c13KeyArg) String() string {
	runtime.Gosched()
	return a.K
}

var c13xSeq int64

// c13XClient: ONE discovery client with consistent-hash selection, n servers, g goroutines calling concurrently with
// different arguments: every call is served by the server its own arguments map to when nothing else is going on.
// case: xconc|n|g|iters
func c13XClient(o *common.Out, id string, n, g, iters int) {
	abstract := fmt.Sprintf("xconc|%d|%d|%d", n, g, iters)
	o.Begin(id, abstract)
	uid := atomic.AddInt64(&c13xSeq, 1)
	var pairs []*client.KVPair
	var addrs []string
	for i := 0; i < n; i++ {
		addr := fmt.Sprintf("c13x-%d-s%d", uid, i)
		registerFake(addr, &fakeServer{id: i, fixed: fmt.Sprintf("ok%d", i+1)}) // the reply names the server
		addrs = append(addrs, addr)
		pairs = append(pairs, &client.KVPair{Key: "vsrv@" + addr})
	}
	defer func() {
		for _, a := range addrs {
			unregisterFake(a)
		}
	}()
	d, _ := client.NewMultipleServersDiscovery(pairs)
	opt := client.DefaultOption
	opt.SerializeType = protocol.JSON
	opt.Heartbeat = false
	xc := client.NewXClient("Svc", client.Failfast, client.ConsistentHash, d, opt)
	defer xc.Close()
	const nk = 12
	key := func(gi, k int) string { return fmt.Sprintf("key-%d-%d", gi, k) }
	want := map[string]int{}
	for gi := 0; gi < g; gi++ {
		for k := 0; k < nk; k++ {
			var rep int
			if err := xc.Call(context.Background(), "M", c13KeyArg{key(gi, k)}, &rep); err != nil {
				o.Fail(id, "rig", "sequential call failed: "+err.Error(), abstract)
				return
			}
			want[key(gi, k)] = rep
		}
	}
	var mu sync.Mutex
	bad := ""
	var wg sync.WaitGroup
	for gi := 0; gi < g; gi++ {
		wg.Add(1)
		go func(gi int) {
			defer wg.Done()
			for it := 0; it < iters; it++ {
				for k := 0; k < nk; k++ {
					var rep int
					err := xc.Call(context.Background(), "M", c13KeyArg{key(gi, k)}, &rep)
					if err != nil || rep != want[key(gi, k)] {
						mu.Lock()
						if bad == "" {
							bad = fmt.Sprintf("with %d goroutines calling through one client, the call with arguments %q was served by server %d (err=%v); alone it is served by server %d (server set unchanged)", g, key(gi, k), rep-1, err, want[key(gi, k)]-1)
						}
						mu.Unlock()
						return
					}
				}
			}
		}(gi)
	}
	wg.Wait()
	if bad != "" {
		o.Fail(id, "unstable", bad, abstract)
	}
	o.ImplOnly(id, abstract, true)
	o.Count("concurrent-calls-one-client")
}

// a registry that changes while a client is being constructed: the first GetServices publishes, before it answers, a
// snapshot that lacks some servers and then the full set again (a rolling restart seen by the registry)
type busyDiscovery struct {
	*client.MultipleServersDiscovery
	once    sync.Once
	partial []*client.KVPair
	full    []*client.KVPair
}

func (b *busyDiscovery) GetServices() []*client.KVPair {
	b.once.Do(func() {
		b.MultipleServersDiscovery.Update(b.partial)
		b.MultipleServersDiscovery.Update(b.full)
	})
	return b.MultipleServersDiscovery.GetServices()
}

// c13BusyRegistry: a client constructed while the registry publishes (a partial set, then the full set again) and a
// client constructed afterwards from the same full set agree on every key.  Oracle only.  case: busy|<n>|<drop>
func c13BusyRegistry(o *common.Out, id string, n, drop int) {
	abstract := fmt.Sprintf("busy|%d|%d", n, drop)
	o.Begin(id, abstract)
	o.Count("registry-publishes-during-construction")
	var full, partial []*client.KVPair
	for i := 0; i < n; i++ {
		kv := &client.KVPair{Key: fmt.Sprintf("vsrv@h%02d", i)}
		full = append(full, kv)
		if i%3 != 1 || len(full)-len(partial) > drop {
			partial = append(partial, kv)
		}
	}
	inner, _ := client.NewMultipleServersDiscovery(full)
	bd := &busyDiscovery{MultipleServersDiscovery: inner, partial: partial, full: full}
	opt := client.DefaultOption
	x1 := client.NewXClient("Svc", client.Failfast, client.ConsistentHash, bd, opt)
	defer x1.Close()
	// a last identical publication: when x1 has applied it, it has applied everything before it
	want := map[string]string{}
	for _, kv := range full {
		want[kv.Key] = ""
	}
	inner.Update(full)
	deadline := time.Now().Add(2 * time.Second)
	for time.Now().Before(deadline) {
		if got := client.VerifXClientServers(x1); len(got) == len(want) {
			break
		}
		time.Sleep(200 * time.Microsecond)
	}
	time.Sleep(3 * time.Millisecond)
	d2, _ := client.NewMultipleServersDiscovery(full)
	x2 := client.NewXClient("Svc", client.Failfast, client.ConsistentHash, d2, opt)
	defer x2.Close()
	bad := 0
	example := ""
	for k := 0; k < 300; k++ {
		key := fmt.Sprintf("key-%d", k)
		a := client.VerifXClientSelect(x1, "Svc", "M", key)
		b := client.VerifXClientSelect(x2, "Svc", "M", key)
		if a != b {
			bad++
			if example == "" {
				example = fmt.Sprintf("%s: %s vs %s", key, a, b)
			}
		}
	}
	if bad > 0 {
		o.Fail(id, "instances-disagree", fmt.Sprintf("a client built while the registry was publishing (%d of %d servers briefly gone) and a client built afterwards from the same %d servers disagree on %d of 300 keys (e.g. %s)", len(full)-len(partial), n, n, bad, example), abstract)
	}
	o.ImplOnly(id, abstract, true)
}

// c13AfterFailure: a discovery client with consistent-hash selection whose server set has grown by an update (the new
// server sorts before the old ones); the mapping of 120 keys is recorded; one server goes down and the calls for its keys
// fail with a connection error; the set has not changed: every other key is still served by the server it was served by
// before.  Oracle only.  case: afterfail|<fail mode>
func c13AfterFailure(o *common.Out, id string, mode string) {
	abstract := "afterfail|" + mode
	o.Begin(id, abstract)
	o.Count("mapping-after-a-failed-call")
	uid := atomic.AddInt64(&c13xSeq, 1)
	addr := func(i int) string { return fmt.Sprintf("c13f-%d-s%d", uid, i) }
	var addrs []string
	for i := 0; i <= 5; i++ {
		registerFake(addr(i), &fakeServer{id: i, fixed: fmt.Sprintf("ok%d", 100+i)})
		addrs = append(addrs, addr(i))
	}
	defer func() {
		for _, a := range addrs {
			unregisterFake(a)
		}
	}()
	pairsOf := func(ids ...int) []*client.KVPair {
		var ps []*client.KVPair
		for _, i := range ids {
			ps = append(ps, &client.KVPair{Key: "vsrv@" + addr(i)})
		}
		return ps
	}
	d, _ := client.NewMultipleServersDiscovery(pairsOf(1, 2, 3, 4, 5))
	opt := client.DefaultOption
	opt.SerializeType = protocol.JSON
	opt.Heartbeat = false
	opt.Retries = 2
	fm := client.Failtry
	if mode == "failover" {
		fm = client.Failover
	}
	xc := client.NewXClient("Svc", fm, client.ConsistentHash, d, opt)
	defer xc.Close()
	call := func(k int) (int, error) {
		var rep int
		ctx, cancel := context.WithTimeout(context.Background(), 5*time.Second)
		defer cancel()
		err := xc.Call(ctx, "M", c13KeyArg{fmt.Sprintf("key-%d", k*7919)}, &rep)
		return rep, err
	}
	// the set grows by a server whose name sorts before the others; wait until some key is served by it
	d.Update(pairsOf(0, 1, 2, 3, 4, 5))
	deadline := time.Now().Add(4 * time.Second)
	for seen := false; !seen; {
		for k := 1000; k < 1200 && !seen; k++ {
			rep, _ := call(k)
			seen = rep == 100
		}
		if !seen && time.Now().After(deadline) {
			o.ImplOnly(id, abstract, false) // the update was never seen applied: nothing to compare
			return
		}
	}
	const nk = 120
	before := make([]int, nk)
	for k := 0; k < nk; k++ {
		rep, err := call(k)
		if err != nil {
			o.Fail(id, "rig", "a call failed while every server was up: "+err.Error(), abstract)
			return
		}
		before[k] = rep
	}
	// the raw entry point: the same raw request, carried by message objects of their own, always reaches the same server
	rawTo := func(k int) (int, error) {
		m := protocol.NewMessage()
		m.SetMessageType(protocol.Request)
		m.SetSerializeType(protocol.JSON)
		m.ServicePath, m.ServiceMethod = "Svc", "M"
		m.Metadata = map[string]string{"k": strconv.Itoa(k)}
		m.Payload = []byte(fmt.Sprintf(`"raw-key-%d"`, k*104729))
		ctx, cancel := context.WithTimeout(context.Background(), 5*time.Second)
		defer cancel()
		_, payload, err := xc.SendRaw(ctx, m)
		if err != nil {
			return 0, err
		}
		n, _ := strconv.Atoi(strings.TrimSpace(string(payload)))
		return n, nil
	}
	for k := 0; k < 16; k++ {
		first, err := rawTo(k)
		if err != nil {
			o.Fail(id, "rig", "a raw request failed while every server was up: "+err.Error(), abstract)
			return
		}
		for rep := 0; rep < 5; rep++ {
			again, err := rawTo(k)
			if err != nil || again != first {
				o.Fail(id, "mapping-moved", fmt.Sprintf("the same raw request (key %d) reached server %d, then server %d (%v), with an unchanged server set", k, first-100, again-100, err), abstract)
				k = 16
				break
			}
		}
	}
	// server 3 goes down: its connections drop, new ones are refused
	unregisterFake(addr(3))
	failed := 0
	for k := 0; k < nk; k++ {
		if before[k] == 103 && failed < 3 {
			if _, err := call(k); err != nil {
				failed++
			}
		}
	}
	moved, example := 0, ""
	for k := 0; k < nk; k++ {
		if before[k] == 103 {
			continue
		}
		rep, err := call(k)
		if err != nil || rep != before[k] {
			moved++
			if example == "" {
				example = fmt.Sprintf("key %d was served by server %d, now by %d (%v)", k, before[k]-100, rep-100, err)
			}
		}
	}
	if moved > 0 {
		o.Fail(id, "mapping-moved", fmt.Sprintf("after %d calls that failed on a dead server (%s), %d of the keys of the other servers changed their server although the set never changed: %s", failed, mode, moved, example), abstract)
	}
	o.ImplOnly(id, abstract, failed > 0)
}

func runC13(r *common.Rand, tier string, o *common.Out, replay string) {
	if strings.HasPrefix(replay, "afterfail|") {
		c13AfterFailure(o, "replay", strings.TrimPrefix(replay, "afterfail|"))
		return
	}
	if replay == "" {
		c13AfterFailure(o, "af0", "failtry")
		c13AfterFailure(o, "af1", "failover")
	}
	if strings.HasPrefix(replay, "busy|") {
		p := strings.Split(replay, "|")
		a, _ := strconv.Atoi(p[1])
		b, _ := strconv.Atoi(p[2])
		c13BusyRegistry(o, "replay", a, b)
		return
	}
	if replay == "" {
		k := 0
		for _, n := range []int{4, 8, 12} {
			for _, drop := range []int{1, 2, 3} {
				k++
				c13BusyRegistry(o, fmt.Sprintf("busy%d", k), n, drop)
			}
		}
	}
	if strings.HasPrefix(replay, "xconc|") {
		var n, g, iters int
		p := strings.Split(replay, "|")
		fmt.Sscan(p[1], &n)
		fmt.Sscan(p[2], &g)
		fmt.Sscan(p[3], &iters)
		c13XClient(o, "replay", n, g, iters)
		return
	}
	if replay == "" {
		xi := 6
		if tier == "thorough" {
			xi = 80
		}
		for _, g := range []int{2, 4, 8} {
			c13XClient(o, fmt.Sprintf("xconc%d", g), 4+g/2, g, xi)
		}
	}
	if strings.HasPrefix(replay, "conc|") {
		var n, g, iters int
		p := strings.Split(replay, "|")
		fmt.Sscan(p[1], &n)
		fmt.Sscan(p[2], &g)
		fmt.Sscan(p[3], &iters)
		c13Concurrent(o, "replay", n, g, iters)
		return
	}
	if replay == "" {
		// the same key maps to the same server under concurrent use by several clients (oracle only)
		ci := 40
		if tier == "thorough" {
			ci = 600
		}
		for _, g := range []int{2, 4, 8} {
			c13Concurrent(o, fmt.Sprintf("conc%d", g), 3+g, g, ci)
		}
	}
	if replay != "" {
		p := strings.Split(replay, "|")
		if p[0] == "jump" {
			var key uint64
			var n int
			fmt.Sscan(p[1], &key)
			fmt.Sscan(p[2], &n)
			o.Case("replay", fmt.Sprintf("jump %d %d", key, n), fmt.Sprint(jump.Hash(key, n)), true)
			return
		}
		var nkeys, inst int
		fmt.Sscan(p[1], &nkeys)
		fmt.Sscan(p[2], &inst)
		var ups [][]int
		for _, u := range p[3:] {
			var ids []int
			for _, f := range strings.Split(strings.TrimPrefix(u, "U:"), ",") {
				if f != "" {
					var x int
					fmt.Sscan(f, &x)
					ids = append(ids, x)
				}
			}
			ups = append(ups, ids)
		}
		c13Run(o, "replay", nkeys, inst, ups)
		return
	}
	// jump hash, bit-exact: model vs github.com/dgryski/go-jump; and the oracle jump(k,n+1) in {jump(k,n), n}
	nj := 600
	if tier == "thorough" {
		nj = 20000
	}
	for i := 0; i < nj; i++ {
		key := r.U64()
		switch r.Intn(8) {
		case 0:
			key = uint64(r.Intn(4))
		case 1:
			key = ^uint64(0) - uint64(r.Intn(4))
		}
		n := 1 + r.Intn(64)
		if r.Chance(15) {
			n = 1 << uint(r.Intn(11))
		}
		a, b := jump.Hash(key, n), jump.Hash(key, n+1)
		if !(b == a || int(b) == n) || a < 0 || int(a) >= n {
			o.Fail(fmt.Sprintf("j%d", i), "jump-not-monotone", fmt.Sprintf("jump(%d,%d)=%d jump(%d,%d)=%d", key, n, a, key, n+1, b), fmt.Sprintf("jump|%d|%d", key, n))
		}
		o.Case(fmt.Sprintf("j%d", i), fmt.Sprintf("jump %d %d", key, n), fmt.Sprint(a), n > 1)
		o.Count("jump")
	}
	// FNV-1a of key strings
	for i := 0; i < 100; i++ {
		s := string(genField(r, false))
		o.Case(fmt.Sprintf("f%d", i), "fnv "+hx([]byte(s)), fmt.Sprint(client.HashString(s)), len(s) > 0)
		o.Count("fnv")
	}
	nh := 80
	nkeys := 40
	if tier == "thorough" {
		nh, nkeys = 3000, 200
	}
	for i := 0; i < nh; i++ {
		var ups [][]int
		// start set
		n0 := 1 + r.Intn(12)
		set := map[int]bool{}
		for len(set) < n0 {
			set[r.Intn(40)] = true
		}
		snapshot := func() []int {
			var out []int
			for k := range set {
				out = append(out, k)
			}
			sort.Ints(out)
			return out
		}
		ups = append(ups, snapshot())
		for s := 0; s < 1+r.Intn(5); s++ {
			switch r.Intn(5) {
			case 0: // re-announce
			case 1, 2: // pure addition of 1..3 servers (some sorting before existing ones)
				for k := 0; k < 1+r.Intn(3); k++ {
					set[r.Intn(40)] = true
				}
			case 3: // removal (leaves holes that later additions reuse)
				for k := range set {
					if len(set) > 1 && r.Chance(40) {
						delete(set, k)
					}
				}
			default: // mixed
				set[r.Intn(40)] = true
				for k := range set {
					if len(set) > 1 && r.Chance(20) {
						delete(set, k)
					}
				}
			}
			ups = append(ups, snapshot())
		}
		c13Run(o, fmt.Sprintf("h%d", i), nkeys, 6, ups)
	}
}
