package main

// A schedule the event model treats as one step but the code does in two: the reader has taken a call out of the
// pending table (lookup + delete under the mutex) and has not yet completed it, when the call's context ends.  The
// caller returns with its context's error; the reader then completes an object nobody waits for any more.  Whatever
// the client recycles (call objects, completion channels), the calls that FOLLOW must each complete with the response
// sent for their own sequence number (C03), exactly once (C05), unaffected by the earlier call (C06).
//
// The reader is parked between "taken" and "completed" with client.ClientErrorFunc (an existing extension point that
// the reader calls for an Error-status response after the lookup) or, for a normal response to a Call, with a reply
// type whose UnmarshalJSON blocks.  Oracle only.

import (
	"context"
	"io"
	"net"
	"encoding/binary"
	"fmt"
	"runtime"
	"runtime/debug"
	"strings"
	"sync"
	"time"

	"github.com/smallnest/rpcx/client"
	"github.com/smallnest/rpcx/protocol"

	"verifharness/internal/common"
	"verifharness/internal/refcodec"
)

type lateGate struct {
	mu      sync.Mutex
	parked  chan struct{}
	release chan struct{}
}

var (
	lateMu    sync.Mutex
	lateGates = map[string]*lateGate{}
	lateOnce  sync.Once
)

// installed once: the gate only parks on texts that name a registered gate, every other error text passes through
func lateInstall() {
	lateOnce.Do(func() {
		client.ClientErrorFunc = func(res *protocol.Message, text string) client.ServiceError {
			if strings.HasPrefix(text, "park-") {
				lateMu.Lock()
				g := lateGates[text]
				lateMu.Unlock()
				if g != nil {
					g.parked <- struct{}{}
					<-g.release
				}
			}
			return client.NewServiceError(text)
		}
	})
}

// a reply whose decoding parks the reader (normal responses to Call)
type lateReply struct {
	V    int
	gate *lateGate
}

func (r *lateReply) UnmarshalJSON(b []byte) error {
	if r.gate != nil {
		r.gate.parked <- struct{}{}
		<-r.gate.release
	}
	_, err := fmt.Sscanf(string(b), "%d", &r.V)
	return err
}

func lateFrame(seq uint64, errText string, payload string, ser byte) []byte {
	var h [12]byte
	h[0] = 8
	h[2] = 0x80
	binary.BigEndian.PutUint64(h[4:], seq)
	h[3] = ser << 4
	var meta []refcodec.KV
	if errText != "" {
		h[2] |= 0x01
		meta = append(meta, refcodec.KV{K: []byte(protocol.ServiceError), V: []byte(errText)})
	}
	return refcodec.Build(h, []byte("Svc"), []byte("m"), meta, []byte(payload))
}

// kind: raw-err (SendRaw, parked in the error hook), call-err (Call, error hook), call-ok (Call, parked in the reply decode)
func csmLateCompletion(o *common.Out, id, kind string, followers int) {
	abstract := fmt.Sprintf("late|%s|%d", kind, followers)
	o.Begin(id, abstract)
	lateInstall()
	prevP := runtime.GOMAXPROCS(1) // one P and no GC: whatever is recycled is handed to the very next taker
	prevGC := debug.SetGCPercent(-1)
	defer func() { runtime.GOMAXPROCS(prevP); debug.SetGCPercent(prevGC) }()
	fail := func(sig, d string) { o.Fail(id, sig, d, abstract) }

	conn := newSimConn()
	addr := "late-" + id
	simMu.Lock()
	simConns[addr] = conn
	simMu.Unlock()
	opt := client.DefaultOption
	opt.SerializeType = protocol.JSON
	opt.Heartbeat = false
	cl := client.NewClient(opt)
	if err := cl.Connect("vsim", addr); err != nil {
		fail("rig", err.Error())
		return
	}
	simMu.Lock()
	delete(simConns, addr)
	simMu.Unlock()
	defer func() {
		cl.Close()
		select {
		case conn.rdErr <- fmt.Errorf("closed"):
		default:
		}
	}()
	// every write is accepted; the sequence numbers written are announced
	wrote := make(chan uint64, 64)
	stop := make(chan struct{})
	defer close(stop)
	go func() {
		for {
			select {
			case w := <-conn.writes:
				w.reply <- nil
				wrote <- w.seq
			case <-stop:
				return
			}
		}
	}()
	waitWrite := func(what string) (uint64, bool) {
		select {
		case s := <-wrote:
			return s, true
		case <-time.After(3 * time.Second):
			fail("call-stuck", what+": its request was never written")
			return 0, false
		}
	}
	gate := &lateGate{parked: make(chan struct{}, 1), release: make(chan struct{}, 1)}
	text := "park-" + id
	lateMu.Lock()
	lateGates[text] = gate
	lateMu.Unlock()
	defer func() { lateMu.Lock(); delete(lateGates, text); lateMu.Unlock() }()

	rawReq := func(seq uint64) *protocol.Message {
		m := protocol.NewMessage()
		m.SetMessageType(protocol.Request)
		m.SetSerializeType(protocol.SerializeNone)
		m.SetSeq(seq)
		m.ServicePath, m.ServiceMethod = "Svc", "m"
		m.Payload = []byte("x")
		return m
	}
	type result struct {
		err     error
		payload string
		v       int
	}
	// ---- the call that is cancelled while the reader holds it ----
	ctxA, cancelA := context.WithCancel(context.Background())
	doneA := make(chan result, 1)
	raw := strings.HasPrefix(kind, "raw")
	go func() {
		if raw {
			_, p, err := cl.SendRaw(ctxA, rawReq(100))
			doneA <- result{err: err, payload: string(p)}
		} else {
			rp := &lateReply{}
			if kind == "call-ok" {
				rp.gate = gate
			}
			err := cl.Call(ctxA, "Svc", "m", 1, rp)
			doneA <- result{err: err, v: rp.V}
		}
	}()
	seqA, ok := waitWrite("the first call")
	if !ok {
		return
	}
	if kind == "call-ok" {
		conn.rdCh <- lateFrame(seqA, "", "41", 1)
	} else {
		ser := byte(1)
		if raw {
			ser = 0
		}
		conn.rdCh <- lateFrame(seqA, text, "", ser)
	}
	select {
	case <-gate.parked:
	case <-time.After(3 * time.Second):
		fail("rig", "the reader never reached the completion of the first call")
		return
	}
	cancelA()
	select {
	case ra := <-doneA:
		if ra.err == nil {
			// the reader may legitimately win if it is released first; it is not: the caller must see its context's error
			fail("wrong-reply", "the first call returned success although its context ended before the reader completed it")
		}
	case <-time.After(3 * time.Second):
		fail("call-stuck", "the first call did not return after its context ended")
		return
	}
	// ---- the calls that follow, started while the reader still holds the first one ----
	type follower struct {
		seq  uint64
		done chan result
	}
	var fs []follower
	for k := 0; k < followers; k++ {
		f := follower{done: make(chan result, 1)}
		if raw {
			want := uint64(200 + k)
			go func() {
				_, p, err := cl.SendRaw(context.Background(), rawReq(want))
				f.done <- result{err: err, payload: string(p)}
			}()
		} else {
			go func() {
				rp := &lateReply{}
				err := cl.Call(context.Background(), "Svc", "m", 2, rp)
				f.done <- result{err: err, v: rp.V}
			}()
		}
		s, ok := waitWrite(fmt.Sprintf("follower %d", k))
		if !ok {
			return
		}
		f.seq = s
		fs = append(fs, f)
	}
	// the reader completes the first call's object now
	gate.release <- struct{}{}
	time.Sleep(2 * time.Millisecond)
	// no follower may have completed yet: nothing was sent for their sequence numbers
	for k, f := range fs {
		select {
		case r := <-f.done:
			fail("wrong-reply", fmt.Sprintf("follower %d (seq %d) completed (err=%v, payload=%q, V=%d) before any response for its sequence number was sent", k, f.seq, r.err, r.payload, r.v))
			return
		default:
		}
	}
	// the peer answers the followers in reverse order
	for k := len(fs) - 1; k >= 0; k-- {
		if raw {
			conn.rdCh <- lateFrame(fs[k].seq, "", fmt.Sprintf("reply-%d", fs[k].seq), 0)
		} else {
			conn.rdCh <- lateFrame(fs[k].seq, "", fmt.Sprintf("%d", 1000+k), 1)
		}
	}
	for k, f := range fs {
		select {
		case r := <-f.done:
			if raw {
				if want := fmt.Sprintf("reply-%d", f.seq); r.err != nil || r.payload != want {
					fail("wrong-reply", fmt.Sprintf("follower %d (seq %d): err=%v payload=%q, the peer sent %q for its sequence number", k, f.seq, r.err, r.payload, want))
				}
			} else if r.err != nil || r.v != 1000+k {
				fail("wrong-reply", fmt.Sprintf("follower %d (seq %d): err=%v reply=%d, the peer sent %d for its sequence number", k, f.seq, r.err, r.v, 1000+k))
			}
		case <-time.After(3 * time.Second):
			fail("call-stuck", fmt.Sprintf("follower %d (seq %d) never completed although its response was sent", k, f.seq))
		}
	}
	o.ImplOnly(id, abstract, true)
	o.Count("late-completion")
}

// ---- a call issued while the reader is winding down ----
// The connection is lost; the reader has started its termination sequence and is inside the connection-close plugin
// when a new call is issued.  Whatever the order of the steps of that sequence, the new call completes - exactly once,
// promptly, with an error - and nothing stays registered.  Oracle only.  case: winddown|<kind>
type windDownPlugin struct{ g *lateGate }

func (p windDownPlugin) ClientConnectionClose(net.Conn) error {
	select {
	case p.g.parked <- struct{}{}:
		<-p.g.release
	default: // a second invocation (Close after the reader): do not park again
	}
	return nil
}

func csmWindDown(o *common.Out, id, kind string) {
	abstract := "winddown|" + kind
	o.Begin(id, abstract)
	fail := func(sig, d string) { o.Fail(id, sig, d, abstract) }
	conn := newSimConn()
	addr := "wind-" + id
	simMu.Lock()
	simConns[addr] = conn
	simMu.Unlock()
	opt := client.DefaultOption
	opt.SerializeType = protocol.JSON
	opt.Heartbeat = false
	cl := client.NewClient(opt)
	gate := &lateGate{parked: make(chan struct{}, 1), release: make(chan struct{}, 1)}
	pc := client.NewPluginContainer()
	pc.Add(windDownPlugin{gate})
	cl.Plugins = pc
	if err := cl.Connect("vsim", addr); err != nil {
		fail("rig", err.Error())
		return
	}
	simMu.Lock()
	delete(simConns, addr)
	simMu.Unlock()
	defer cl.Close()
	stop := make(chan struct{})
	defer close(stop)
	go func() { // the transport accepts every write (a half-closed stream still takes bytes)
		for {
			select {
			case w := <-conn.writes:
				w.reply <- nil
			case <-stop:
				return
			}
		}
	}()
	// an earlier call is in flight when the connection is lost
	first := make(chan *client.Call, 2)
	cl.Go(context.Background(), "Svc", "m", 1, new(int), first)
	time.Sleep(2 * time.Millisecond)
	conn.rdErr <- io.EOF
	select {
	case <-gate.parked:
	case <-time.After(3 * time.Second):
		fail("rig", "the reader never reached the connection-close plugin")
		return
	}
	// the new call, issued while the reader stands inside the plugin
	done := make(chan *client.Call, 4)
	ret := make(chan error, 1)
	go func() {
		switch kind {
		case "go":
			cl.Go(context.Background(), "Svc", "m", 2, new(int), done)
		case "call":
			var rp int
			ret <- cl.Call(context.Background(), "Svc", "m", 2, &rp)
		}
	}()
	time.Sleep(3 * time.Millisecond)
	gate.release <- struct{}{}
	switch kind {
	case "go":
		select {
		case c := <-done:
			if c.Error == nil {
				fail("wrong-reply", "a call issued while the connection was being torn down completed without an error")
			}
		case <-time.After(3 * time.Second):
			fail("left-hanging", fmt.Sprintf("a call issued while the reader was winding down (inside the connection-close plugin) never completed: pending=%d shutdown=%v", client.VerifPendingLen(cl), cl.IsShutdown()))
		}
		time.Sleep(2 * time.Millisecond)
		if len(done) > 0 {
			fail("double-signal", "the call issued while the reader was winding down was signalled twice")
		}
	case "call":
		select {
		case err := <-ret:
			if err == nil {
				fail("wrong-reply", "a blocking call issued while the connection was being torn down returned success")
			}
		case <-time.After(3 * time.Second):
			fail("left-hanging", fmt.Sprintf("a blocking call issued while the reader was winding down never returned: pending=%d shutdown=%v", client.VerifPendingLen(cl), cl.IsShutdown()))
		}
	}
	select {
	case c := <-first:
		if c.Error == nil {
			fail("wrong-reply", "the call in flight when the connection was lost completed without an error")
		}
	case <-time.After(3 * time.Second):
		fail("left-hanging", "the call in flight when the connection was lost never completed")
	}
	o.ImplOnly(id, abstract, true)
	o.Count("reader-wind-down")
}
