package main

import (
	"bufio"
	"bytes"
	"encoding/binary"
	"encoding/json"
	"fmt"
	"github.com/smallnest/rpcx/server"
	"io"
	"strconv"
	"strings"
	"time"

	"github.com/smallnest/rpcx/protocol"

	"verifharness/internal/common"
	"verifharness/internal/refcodec"
)

func init() { props["C02"] = runC02 }

type c02step struct {
	reset  bool
	stream []byte
}

// abstract case:  dec|<max>|R:<hex>|N:<hex>...      or   all|<max>|<chunkseed>|<hex>
func c02abstract(max int, steps []c02step) string {
	var sb strings.Builder
	fmt.Fprintf(&sb, "dec|%d", max)
	for _, s := range steps {
		f := "N"
		if s.reset {
			f = "R"
		}
		sb.WriteString("|" + f + ":" + hx(s.stream))
	}
	return sb.String()
}

// what the registered compressor's Unzip returns for the raw payload of this stream's frame
func unzipSpec(stream []byte) string {
	f, err := refcodec.Parse(stream)
	if err != nil {
		return "N"
	}
	ct := compressOf(f.Header)
	if ct == 0 {
		return "N"
	}
	c := protocol.Compressors[protocol.CompressType(ct)]
	if c == nil {
		return "U"
	}
	out, err := safeUnzip(c, f.Raw)
	if err != nil {
		return "E"
	}
	return hx(out)
}

// unzipTable: for every well-formed compressed frame of a stream, what its registered compressor's Unzip returns
// for the frame's raw payload: "ct/raw:out,..." ("-" when no frame is compressed)
func unzipTable(stream []byte) string {
	var ent []string
	for len(stream) >= 16 {
		f, err := refcodec.Parse(stream)
		if err != nil {
			break
		}
		if ct := compressOf(f.Header); ct != 0 {
			if c := protocol.Compressors[protocol.CompressType(ct)]; c != nil {
				out, uerr := safeUnzip(c, f.Raw)
				v := hx(out)
				if uerr != nil {
					v = "E"
				}
				ent = append(ent, fmt.Sprintf("%d/%s:%s", ct, hx(f.Raw), v))
			}
		}
		stream = stream[f.FrameLn:]
	}
	if len(ent) == 0 {
		return "-"
	}
	return strings.Join(ent, ",")
}

func safeUnzip(c protocol.Compressor, raw []byte) (out []byte, err error) {
	defer func() {
		if e := recover(); e != nil {
			err = fmt.Errorf("panic in Unzip: %v", e)
		}
	}()
	out, err = c.Unzip(append([]byte{}, raw...))
	return append([]byte{}, out...), err
}

type decObs struct {
	ok    bool
	cls   string
	msg   string
	rest  int
	panic string
}

func (d decObs) String() string {
	if d.panic != "" {
		return "PANIC " + d.panic
	}
	if d.ok {
		return fmt.Sprintf("OK %s rest=%d", d.msg, d.rest)
	}
	return fmt.Sprintf("ERR %s rest=%d", d.cls, d.rest)
}

func decodeOnce(msg *protocol.Message, stream []byte) (obs decObs) {
	rd := bytes.NewReader(stream)
	defer func() {
		if e := recover(); e != nil {
			obs = decObs{panic: fmt.Sprint(e)}
		}
	}()
	err := msg.Decode(rd)
	if err != nil {
		cls := decErrClass(err)
		// a decompressor reports a truncated (or empty) compressed payload as io.ErrUnexpectedEOF (io.EOF) too: when the whole frame was
		// read, the error is the decompressor's, not a truncated frame
		if consumed := len(stream) - rd.Len(); (cls == "UnexpectedEOF" || cls == "EOF") && consumed >= 16 &&
			consumed == 16+int(binary.BigEndian.Uint32(stream[12:16])) {
			cls = "UnzipError"
		}
		return decObs{cls: cls, rest: rd.Len()}
	}
	return decObs{ok: true, msg: showMsg(msg), rest: rd.Len()}
}

// c02AfterRefusal: one message object, never reset: the stream is decoded, decoded again, then the valid frame it was
// made from, then the stream once more - each time with the outcome a fresh object gives (a refused frame is refused
// again; what a failed decode leaves in the object shows nowhere).  Oracle only.  case: again|<stream>|<valid frame>
func c02AfterRefusal(o *common.Out, id string, stream, valid []byte) {
	abstract := "again|" + hx(stream) + "|" + hx(valid)
	o.Begin(id, abstract)
	o.Count("same-object-after-a-refusal")
	msg := protocol.NewMessage()
	for i, st := range [][]byte{stream, stream, valid, stream} {
		got := decodeOnce(msg, st)
		fresh := decodeOnce(protocol.NewMessage(), st)
		if got.panic != "" {
			o.Fail(id, "decode-panic", fmt.Sprintf("decode %d on the same object panicked: %s", i, got.panic), abstract)
			return
		}
		if got.String() != fresh.String() {
			sg := "depends-on-object-history"
			if _, rerr := refcodec.Parse(st); rerr != nil && got.ok {
				sg = "success-on-malformed"
			}
			o.Fail(id, sg, fmt.Sprintf("decode %d on an object that was never reset gives %s, a fresh object gives %s", i, got, fresh), abstract)
			return
		}
	}
	o.ImplOnly(id, abstract, true)
}

func c02Run(o *common.Out, id string, max int, steps []c02step, kind string) {
	abstract := c02abstract(max, steps)
	o.Begin(id, abstract)
	o.Count(kind)
	protocol.MaxMessageLength = max
	defer func() { protocol.MaxMessageLength = 0 }()
	msg := protocol.NewMessage()
	var model strings.Builder
	fmt.Fprintf(&model, "dec %d", max)
	var obs []string
	nontrivial := false
	for i, st := range steps {
		if st.reset {
			msg.Reset()
		}
		f := "N"
		if st.reset {
			f = "R"
		}
		fmt.Fprintf(&model, " %s:%s:%s", f, hx(st.stream), unzipSpec(st.stream))
		got := decodeOnce(msg, st.stream)
		obs = append(obs, got.String())
		o.Count("outcome=" + func() string {
			if got.ok {
				return "OK"
			}
			return got.cls
		}())
		// ---------- property oracle, refcodec as referee ----------
		sig := func(s string) string { return s }
		if got.panic != "" {
			o.Fail(id, sig("decode-panic"), fmt.Sprintf("step %d: Decode panicked: %s", i, got.panic), abstract)
			break
		}
		ref, rerr := refcodec.Parse(st.stream)
		tooLong := false
		if len(st.stream) >= 16 && st.stream[0] == 8 && max > 0 {
			total := int(st.stream[12])<<24 | int(st.stream[13])<<16 | int(st.stream[14])<<8 | int(st.stream[15])
			tooLong = total > max
		}
		switch {
		case tooLong:
			if got.ok || got.cls != "TooLong" || got.rest != len(st.stream)-16 {
				o.Fail(id, sig("maxlen-not-enforced"), fmt.Sprintf("step %d: frame longer than MaxMessageLength=%d: got %s, want TooLong with the body unread", i, max, got), abstract)
			}
		case rerr != nil:
			if got.ok {
				o.Fail(id, sig("success-on-malformed"), fmt.Sprintf("step %d: reference parser rejects the stream (%v) but Decode succeeded: %s", i, rerr, got), abstract)
			}
		default:
			if got.ok {
				if got.rest != len(st.stream)-ref.FrameLn {
					o.Fail(id, sig("consumed-wrong"), fmt.Sprintf("step %d: reader left with %d bytes, frame is %d of %d", i, got.rest, ref.FrameLn, len(st.stream)), abstract)
				}
				want := ref.Raw
				if ct := compressOf(ref.Header); ct != 0 {
					if c := protocol.Compressors[protocol.CompressType(ct)]; c != nil {
						want, _ = safeUnzip(c, ref.Raw)
					}
				}
				if w := showRef(ref, want); w != got.msg {
					o.Fail(id, sig("fields-not-confined"), fmt.Sprintf("step %d: decoded {%s} but the frame's length fields delimit {%s}", i, got.msg, w), abstract)
				}
			}
		}
		// independence of the object's history: same stream on a fresh object
		fresh := decodeOnce(protocol.NewMessage(), st.stream)
		if fresh.String() != got.String() {
			o.Fail(id, sig("depends-on-object-history"), fmt.Sprintf("step %d: reused object gives %s, fresh object gives %s", i, got, fresh), abstract)
		}
		if i > 0 {
			nontrivial = true
		}
		if !got.ok {
			break
		}
	}
	if len(steps) == 1 && len(steps[0].stream) > 16 {
		nontrivial = true
	}
	o.Case(id, model.String(), strings.Join(obs, " | "), nontrivial)
}

// a reader that hands out the stream in the given chunk sizes
type chunkReader struct {
	data   []byte
	chunks []int
	i      int
}

func (c *chunkReader) Read(p []byte) (int, error) {
	if len(c.data) == 0 {
		return 0, io.EOF
	}
	n := 1
	if len(c.chunks) > 0 {
		n = c.chunks[c.i%len(c.chunks)]
		c.i++
	}
	if n > len(c.data) {
		n = len(c.data)
	}
	if n > len(p) {
		n = len(p)
	}
	copy(p, c.data[:n])
	c.data = c.data[n:]
	return n, nil
}

func c02All(o *common.Out, id string, max int, chunks []int, stream []byte, want []string) {
	cs := make([]string, len(chunks))
	for i, c := range chunks {
		cs[i] = strconv.Itoa(c)
	}
	abstract := fmt.Sprintf("all|%d|%s|%s", max, strings.Join(cs, ","), hx(stream))
	o.Begin(id, abstract)
	o.Count("multi-frame-stream")
	protocol.MaxMessageLength = max
	defer func() { protocol.MaxMessageLength = 0 }()
	rd := bufio.NewReaderSize(&chunkReader{data: append([]byte{}, stream...), chunks: chunks}, 64)
	msg := protocol.NewMessage()
	var got []string
	var held []*protocol.Message
	end := "none"
	for {
		var err error
		func() {
			defer func() {
				if e := recover(); e != nil {
					err = fmt.Errorf("invalid message: panic %v", e)
				}
			}()
			err = msg.Decode(rd)
		}()
		if err != nil {
			if !(err == io.EOF) {
				end = decErrClass(err)
			}
			break
		}
		got = append(got, showMsg(msg))
		held = append(held, msg)
		msg = protocol.NewMessage()
	}
	// a decoded message belongs to its receiver: decoding the frames that follow must not change it
	for i, m := range held {
		if now := showMsg(m); now != got[i] {
			o.Fail(id, "decoded-message-changed-later", fmt.Sprintf("message %d of the stream read %s right after its decode and %s after the rest of the stream was decoded", i, got[i], now), abstract)
			break
		}
	}
	// the other entry point: protocol.Read, on a reader that is nothing but a reader (no buffering of its own, chunks as
	// they come, several frames per chunk): the same messages, the same end
	{
		big := make([]int, len(chunks))
		for i, c := range chunks {
			big[i] = c * 97 // chunks that span frames as well as chunks inside them
		}
		for _, cks := range [][]int{chunks, big} {
			plain := struct{ io.Reader }{&chunkReader{data: append([]byte{}, stream...), chunks: cks}}
			var got2 []string
			end2 := "none"
			for {
				var m2 *protocol.Message
				var err error
				func() {
					defer func() {
						if e := recover(); e != nil {
							err = fmt.Errorf("invalid message: panic %v", e)
						}
					}()
					m2, err = protocol.Read(plain)
				}()
				if err != nil {
					if !(err == io.EOF) {
						end2 = decErrClass(err)
					}
					break
				}
				got2 = append(got2, showMsg(m2))
			}
			if strings.Join(got2, " ; ") != strings.Join(got, " ; ") || end2 != end {
				o.Fail(id, "resync", fmt.Sprintf("the stream read through protocol.Read from a plain reader gives %d messages (end=%s); decoded from a buffered reader it gives %d (end=%s)", len(got2), end2, len(got), end), abstract)
				break
			}
		}
	}
	obs := fmt.Sprintf("n=%d %s end=%s", len(got), strings.Join(got, " ; "), end)
	if want != nil {
		if strings.Join(got, " ; ") != strings.Join(want, " ; ") || end != "none" {
			o.Fail(id, "resync", fmt.Sprintf("chunked stream of %d frames decoded to %d messages (end=%s) or different contents", len(want), len(got), end), abstract)
		}
	}
	o.Case(id, fmt.Sprintf("all %d %s %s", max, hx(stream), unzipTable(stream)), obs, len(want) > 1)
}

// c02SmallZip: the small frames of multi-frame streams carry compressed payloads (gzip / snappy)
var c02SmallZip bool

func c02RandFrame(r *common.Rand, small bool) (frame []byte, shown string) {
	h := genHeader(r)
	ct := 0
	switch r.Intn(8) {
	case 0:
		ct = 1
	case 1:
		ct = 2
	case 2:
		ct = 3 + r.Intn(5)
	}
	if small {
		ct = 0
		if c02SmallZip {
			ct = 1 + r.Intn(2)
		}
	}
	setCompress(&h, ct)
	path, meth := genField(r, false), genField(r, false)
	if small {
		path, meth = r.Bytes(r.Intn(6)), r.Bytes(r.Intn(4))
	}
	var meta []refcodec.KV
	nm := r.Intn(4)
	for k := 0; k < nm; k++ {
		kv := refcodec.KV{K: genField(r, false), V: genField(r, false)}
		if small {
			kv = refcodec.KV{K: r.Bytes(r.Intn(4)), V: r.Bytes(r.Intn(4))}
		}
		meta = append(meta, kv)
	}
	if r.Chance(10) && len(meta) > 0 { // duplicate key: later wins
		meta = append(meta, refcodec.KV{K: meta[0].K, V: []byte("dup")})
	}
	payload := r.Bytes(r.Intn(40))
	if !small && r.Chance(20) {
		payload = bytes.Repeat([]byte{7}, 2000)
	}
	raw := payload
	if c := protocol.Compressors[protocol.CompressType(ct)]; ct != 0 && c != nil {
		z, _ := c.Zip(payload)
		raw = append([]byte{}, z...)
	}
	frame = refcodec.Build(h, path, meth, meta, raw)
	f, _ := refcodec.Parse(frame)
	return frame, showRef(f, payload)
}

var boundaryVals = func(l int) []uint32 {
	return []uint32{0, 1, uint32(l - 1), uint32(l), uint32(l + 1), 1 << 16, 1<<31 - 1, 1 << 31, 1<<32 - 1}
}

func put32at(b []byte, off int, v uint32) {
	b[off], b[off+1], b[off+2], b[off+3] = byte(v>>24), byte(v>>16), byte(v>>8), byte(v)
}

// what a server does with a frame the decoder refused: the stream has no frame boundary any more, so nothing after the
// refusal may be taken for a request.  An oversize frame whose body is itself a sequence of valid requests is sent to a
// real server (MaxMessageLength set): no handler may run, no response for the inner requests may come back.
func c02ServerAfterRefusal(o *common.Out, id string, inner int, pool bool) {
	abstract := fmt.Sprintf("srv-too-long|%d|%v", inner, pool)
	o.Begin(id, abstract)
	protocol.MaxMessageLength = 128
	defer func() { protocol.MaxMessageLength = 0 }()
	var opts []server.OptionFn
	if pool {
		opts = append(opts, server.WithPool(8, 64))
	}
	rig := newSrvRig(false, opts...)
	rig.start()
	defer rig.stop()
	p, err := rig.connect()
	if err != nil {
		o.Fail(id, "rig", "cannot connect: "+err.Error(), abstract)
		return
	}
	defer p.close()
	var body []byte
	for i := 0; i < inner; i++ {
		pl, _ := json.Marshal(map[string]interface{}{"Id": 100 + i, "A": 2 + i, "B": 3, "Mode": "ok"})
		q := reqSpec{seq: uint64(100 + i), path: "Arith", method: "Mul", ser: 1, payload: pl}
		body = append(body, q.frame()...)
	}
	var h [16]byte
	h[0], h[3] = 8, 1<<4
	binary.BigEndian.PutUint64(h[4:12], 7)
	binary.BigEndian.PutUint32(h[12:16], uint32(len(body)))
	p.conn.SetWriteDeadline(time.Now().Add(2 * time.Second))
	p.conn.Write(append(h[:], body...))
	// whatever comes back may only be about the outer frame (seq 7); then the connection ends or stays silent
	deadline := time.After(400 * time.Millisecond)
loop:
	for {
		select {
		case f := <-p.frames:
			if v := viewFrame(f); v.seq != 7 {
				o.Fail(id, "request-from-inside-a-refused-frame", fmt.Sprintf("a response for seq %d came back: bytes inside a refused (too long) frame were taken for a request", v.seq), abstract)
				break loop
			}
		case <-p.closed:
			break loop
		case <-deadline:
			break loop
		}
	}
	rig.h.mu.Lock()
	n := len(rig.h.invoked)
	rig.h.mu.Unlock()
	if n > 0 {
		o.Fail(id, "request-from-inside-a-refused-frame", fmt.Sprintf("%d handlers ran for requests that were only bytes inside a refused (too long) frame", n), abstract)
	}
	o.Count("server-after-refusal")
	o.ImplOnly(id, abstract, true)
}

// a reader that reports when the decoder asks it for bytes for the first time, holds that read until released, and
// counts what it hands over
type parkedReader struct {
	asked   chan struct{}
	release chan struct{}
	src     *bytes.Reader
	n       int
	first   bool
}

func (p *parkedReader) Read(b []byte) (int, error) {
	if !p.first {
		p.first = true
		close(p.asked)
		<-p.release
	}
	k, err := p.src.Read(b)
	p.n += k
	return k, err
}

// c02LimitWhileWaiting: the limit is configured (or lowered) while a decoder is already waiting for the next frame, as
// every idle connection does: the frame that then arrives is judged by the limit in force when its length is read -
// rejected with the body unread.  Oracle only.  case: parked|<old>|<new>|<payload>
func c02LimitWhileWaiting(o *common.Out, id string, old, limit, payload int) {
	abstract := fmt.Sprintf("parked|%d|%d|%d", old, limit, payload)
	o.Begin(id, abstract)
	o.Count("limit-set-while-a-decoder-waits")
	protocol.MaxMessageLength = old
	defer func() { protocol.MaxMessageLength = 0 }()
	var h [12]byte
	h[0], h[3] = 8, 1<<4
	frame := refcodec.Build(h, []byte("P"), []byte("m"), nil, bytes.Repeat([]byte{'z'}, payload))
	pr := &parkedReader{asked: make(chan struct{}), release: make(chan struct{}), src: bytes.NewReader(frame)}
	msg := protocol.NewMessage()
	done := make(chan error, 1)
	go func() { done <- msg.Decode(pr) }()
	select {
	case <-pr.asked:
	case <-time.After(3 * time.Second):
		o.Fail(id, "rig", "the decoder never asked for bytes", abstract)
		return
	}
	protocol.MaxMessageLength = limit
	close(pr.release)
	var err error
	select {
	case err = <-done:
	case <-time.After(3 * time.Second):
		o.Fail(id, "decode-hangs", "Decode did not return", abstract)
		return
	}
	tooLong := len(frame)-16 > limit
	switch {
	case tooLong && (err == nil || pr.n != 16):
		o.Fail(id, "maxlen-not-enforced", fmt.Sprintf("MaxMessageLength was set to %d while the decoder was waiting; the frame of %d bytes that then arrived: err=%v, %d bytes consumed (want an error after 16)", limit, len(frame), err, pr.n), abstract)
	case !tooLong && err != nil:
		o.Fail(id, "valid-frame-rejected", fmt.Sprintf("a frame of %d bytes under the limit %d: %v", len(frame), limit, err), abstract)
	}
	o.ImplOnly(id, abstract, true)
}

func runC02(r *common.Rand, tier string, o *common.Out, replay string) {
	if strings.HasPrefix(replay, "parked|") {
		p := strings.Split(replay, "|")
		a, _ := strconv.Atoi(p[1])
		b, _ := strconv.Atoi(p[2])
		c, _ := strconv.Atoi(p[3])
		c02LimitWhileWaiting(o, "replay", a, b, c)
		return
	}
	if replay == "" {
		k := 0
		for _, cfg := range [][3]int{{0, 64, 4096}, {1 << 20, 1024, 2000}, {0, 100, 50}, {64, 1 << 20, 3000}, {0, 30, 15}, {4096, 200, 185}} {
			k++
			c02LimitWhileWaiting(o, fmt.Sprintf("parked%d", k), cfg[0], cfg[1], cfg[2])
		}
	}
	protocol.Compressors[protocol.CompressType(2)] = &protocol.SnappyCompressor{}
	if strings.HasPrefix(replay, "again|") {
		p := strings.Split(replay, "|")
		c02AfterRefusal(o, "replay", unhx(p[1]), unhx(p[2]))
		return
	}
	if replay != "" {
		p := strings.Split(replay, "|")
		max, _ := strconv.Atoi(p[1])
		if p[0] == "srv-too-long" {
			n, _ := strconv.Atoi(p[1])
			c02ServerAfterRefusal(o, "replay", n, p[2] == "true")
			return
		}
		if p[0] == "all" {
			var chunks []int
			for _, c := range strings.Split(p[2], ",") {
				if n, err := strconv.Atoi(c); err == nil {
					chunks = append(chunks, n)
				}
			}
			c02All(o, "replay", max, chunks, unhx(p[3]), nil)
			return
		}
		var steps []c02step
		for _, s := range p[2:] {
			steps = append(steps, c02step{reset: s[0] == 'R', stream: unhx(s[2:])})
		}
		c02Run(o, "replay", max, steps, "replay")
		return
	}
	id := 0
	next := func() string { id++; return fmt.Sprintf("d%d", id) }
	for _, inner := range []int{1, 2, 4} {
		for _, pool := range []bool{false, true} {
			c02ServerAfterRefusal(o, next(), inner, pool)
		}
	}
	nbase := 25
	nrand := 1500
	if tier == "thorough" {
		nbase, nrand = 200, 30000
	}
	// a long frame decoded first, so that a reused object's buffer has capacity and stale contents
	prime, _ := c02RandFrame(r, false)
	for len(prime) < 600 {
		prime = refcodec.Build(genHeader(r), []byte("SECRETPATH-SECRETPATH"), []byte("SECRETMETHOD"),
			[]refcodec.KV{{K: []byte("secretkey"), V: bytes.Repeat([]byte("S"), 400)}}, bytes.Repeat([]byte("P"), 300))
		prime[2] &^= 0x1c
	}
	withPrime := func(stream []byte, reset bool) []c02step {
		return []c02step{{stream: prime}, {reset: reset, stream: stream}}
	}
	for b := 0; b < nbase; b++ {
		frame, _ := c02RandFrame(r, true)
		// (b) every truncation point, on a fresh and on a primed object
		for cut := 0; cut <= len(frame); cut++ {
			c02Run(o, next(), 0, []c02step{{stream: frame[:cut]}}, "truncation")
			if cut%3 == 0 {
				c02Run(o, next(), 0, withPrime(frame[:cut], r.Bool()), "truncation-reused")
			}
		}
		// (c) every length field replaced by every boundary value
		f, _ := refcodec.Parse(frame)
		offs := []struct {
			off, l int
			name   string
		}{{12, f.Total, "total"}, {16, len(f.Path), "path"}, {20 + len(f.Path), len(f.Method), "method"}}
		mo := 24 + len(f.Path) + len(f.Method)
		ml := 0
		for _, kv := range f.Meta {
			ml += 8 + len(kv.K) + len(kv.V)
		}
		offs = append(offs, struct {
			off, l int
			name   string
		}{mo, ml, "meta"})
		p := mo + 4
		for _, kv := range f.Meta {
			offs = append(offs, struct {
				off, l int
				name   string
			}{p, len(kv.K), "metakey"})
			p += 4 + len(kv.K)
			offs = append(offs, struct {
				off, l int
				name   string
			}{p, len(kv.V), "metaval"})
			p += 4 + len(kv.V)
		}
		offs = append(offs, struct {
			off, l int
			name   string
		}{mo + 4 + ml, len(f.Raw), "payload"})
		for _, fo := range offs {
			for _, v := range boundaryVals(fo.l) {
				mut := append([]byte{}, frame...)
				put32at(mut, fo.off, v)
				max := 0
				if fo.name == "total" && v > 1<<20 {
					max = 1 << 20 // never let the implementation allocate a huge body
				}
				c02Run(o, next(), max, []c02step{{stream: mut}}, "length-field-"+fo.name)
				c02Run(o, next(), max, withPrime(mut, r.Bool()), "length-field-"+fo.name+"-reused")
				if max == 0 {
					c02AfterRefusal(o, next(), mut, frame)
				}
			}
		}
		// (f) MaxMessageLength around the frame's total
		for _, max := range []int{1, f.Total - 1, f.Total, f.Total + 1} {
			if max > 0 {
				c02Run(o, next(), max, []c02step{{stream: append(append([]byte{}, frame...), 1, 2, 3)}}, "maxlen")
			}
		}
	}
	// (a,d,e) random valid frames, bit flips, garbage, sequences on one object
	for i := 0; i < nrand; i++ {
		nsteps := 1 + r.Intn(4)
		var steps []c02step
		for s := 0; s < nsteps; s++ {
			frame, _ := c02RandFrame(r, r.Chance(50))
			switch r.Intn(10) {
			case 0: // bit flips
				for k := 0; k < 1+r.Intn(3); k++ {
					frame[r.Intn(len(frame))] ^= 1 << uint(r.Intn(8))
				}
				// keep the declared total small enough not to allocate gigabytes
				if len(frame) >= 16 && frame[12] != 0 {
					frame[12] = 0
				}
			case 1: // garbage
				frame = r.Bytes(r.Intn(40))
				if len(frame) > 0 && r.Chance(70) {
					frame[0] = 8
				}
				if len(frame) >= 16 {
					frame[12], frame[13] = 0, 0
				}
			case 2: // trailing bytes
				frame = append(frame, r.Bytes(1+r.Intn(5))...)
			case 3: // slack inside the body after the payload
				f, _ := refcodec.Parse(frame)
				put32at(frame, 12, uint32(f.Total+3))
				frame = append(frame, 9, 9, 9)
			}
			steps = append(steps, c02step{reset: r.Chance(60), stream: frame})
		}
		c02Run(o, next(), 0, steps, "random-sequence")
	}
	// (g) multi-frame streams through a chunking reader
	nall := 150
	if tier == "thorough" {
		nall = 3000
	}
	for i := 0; i < nall; i++ {
		k := 1 + r.Intn(5)
		var stream []byte
		var want []string
		c02SmallZip = i%3 == 1 // every third stream: compressed payloads in every frame
		for j := 0; j < k; j++ {
			fr, shown := c02RandFrame(r, true)
			stream = append(stream, fr...)
			want = append(want, shown)
		}
		c02SmallZip = false
		var chunks []int
		for j := 0; j < 1+r.Intn(6); j++ {
			chunks = append(chunks, 1+r.Intn(23))
		}
		c02All(o, next(), 0, chunks, stream, want)
	}
	// MaxMessageLength bounds the FRAME: a compressed payload that fits the bound on the wire and inflates beyond it
	// decodes to all of its bytes (or to an error), never to a part of them
	nz := 12
	if tier == "thorough" {
		nz = 200
	}
	for i := 0; i < nz; i++ {
		k := 1 + r.Intn(3)
		var stream []byte
		var want []string
		longest := 0
		for j := 0; j < k; j++ {
			h := genHeader(r)
			ct := 1 + r.Intn(2)
			setCompress(&h, ct)
			payload := bytes.Repeat([]byte{byte(65 + r.Intn(20)), byte(r.Intn(3))}, 400+r.Intn(3000))
			z, _ := protocol.Compressors[protocol.CompressType(ct)].Zip(payload)
			fr := refcodec.Build(h, r.Bytes(r.Intn(6)), r.Bytes(r.Intn(4)), nil, append([]byte{}, z...))
			f, _ := refcodec.Parse(fr)
			stream = append(stream, fr...)
			want = append(want, showRef(f, payload))
			if len(fr) > longest {
				longest = len(fr)
			}
		}
		c02All(o, next(), longest+r.Intn(40), []int{1 + r.Intn(50)}, stream, want)
		o.Count("compressed-payload-inflates-beyond-the-frame-bound")
	}
}
