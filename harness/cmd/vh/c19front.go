package main

// C19, header level: what the two HTTP front ends build from a request's headers (server/converter.go,
// the header checks of handleGatewayRequest, the method split of handleJSONRPCRequest) against
// coq/Server/Gateway.v.  Three kinds of cases:
//   conv  server.HTTPRequest2RpcxRequest called directly on a header set (any byte strings)
//   gw    a request through the real gateway; the request the server built is read at the post-read stage
//   jr    a request through the real JSON-RPC endpoint, likewise

import (
	"bytes"
	"encoding/hex"
	"encoding/json"
	"fmt"
	"io"
	"net/http"
	"sort"
	"strconv"
	"strings"
	"sync"
	"time"

	"github.com/smallnest/rpcx/protocol"
	"github.com/smallnest/rpcx/server"

	"verifharness/internal/common"
)

type reqRecorder struct {
	mu   sync.Mutex
	n    int
	last string
}

func showReq(m *protocol.Message) string {
	keys := make([]string, 0, len(m.Metadata))
	for k := range m.Metadata {
		keys = append(keys, k)
	}
	sort.Strings(keys)
	var mb strings.Builder
	for i, k := range keys {
		if i > 0 {
			mb.WriteByte(',')
		}
		mb.WriteString(hxs(k) + ":" + hxs(m.Metadata[k]))
	}
	b := func(x bool) int {
		if x {
			return 1
		}
		return 0
	}
	return fmt.Sprintf("seq=%d hb=%d ow=%d ser=%d comp=%d meta=%s path=%s meth=%s body=%s", m.Seq(), b(m.IsHeartbeat()), b(m.IsOneway()),
		int(m.SerializeType()), int(m.CompressType()), mb.String(), hxs(m.ServicePath), hxs(m.ServiceMethod), hxs(string(m.Payload)))
}

func (r *reqRecorder) note(m *protocol.Message) {
	s := showReq(m)
	r.mu.Lock()
	r.n++
	r.last = s
	r.mu.Unlock()
}
func (r *reqRecorder) count() int {
	r.mu.Lock()
	defer r.mu.Unlock()
	return r.n
}

func hxs(s string) string {
	if s == "" {
		return "-"
	}
	return hex.EncodeToString([]byte(s))
}

type frontHdr struct {
	id, hb, ow, ser, comp, meta, auth, path, meth, body, urlpath string
	chunked                                                      bool // the body is sent without a Content-Length (Transfer-Encoding: chunked)
}

// bodyReader: a bytes.Reader tells net/http the length; any other reader makes the client send the body chunked
func (h frontHdr) bodyReader() io.Reader {
	if h.chunked {
		return struct{ io.Reader }{bytes.NewReader([]byte(h.body))}
	}
	return bytes.NewReader([]byte(h.body))
}

func (h frontHdr) line(kind string) string {
	s := fmt.Sprintf("%s %s %s %s %s %s %s %s %s %s %s", kind, hxs(h.id), hxs(h.hb), hxs(h.ow), hxs(h.ser), hxs(h.comp), hxs(h.meta), hxs(h.auth), hxs(h.path), hxs(h.meth), hxs(h.body))
	if kind == "gw" {
		s += " " + hxs(h.urlpath)
	}
	if h.chunked {
		s += " +chunked" // transport detail: the model ignores it
	}
	return s
}

func (h frontHdr) apply(hd http.Header) {
	set := func(k, v string) {
		if v != "" {
			hd.Set(k, v)
		}
	}
	set(server.XMessageID, h.id)
	set(server.XHeartbeat, h.hb)
	set(server.XOneway, h.ow)
	set(server.XSerializeType, h.ser)
	set(server.XCompressType, h.comp)
	set(server.XMeta, h.meta)
	set("Authorization", h.auth)
	set(server.XServicePath, h.path)
	set(server.XServiceMethod, h.meth)
}

var (
	numGrammar = []string{"", "0", "1", "2", "3", "4", "7", "8", "15", "16", "17", "255", "256", "-1", "-0", "+3", "+", "-", "abc", "1.0", "1e3", " 5", "5 ", "0x10",
		"007", "1_0", "9223372036854775807", "9223372036854775808", "-9223372036854775808", "-9223372036854775809", "18446744073709551615",
		"18446744073709551616", "99999999999999999999999", "00000000000000000000000012", "１"}
	flagGrammar = []string{"", "", "true", "1", "0", "false", "x"}
	metaPieces  = []string{"a=1", "b=2", "a=3", "k", "=v", "=", "", "x%41y=%7e", "p=%zz", "%=1", "q=%4", "s;t=1", "u=1;2", "sp=a+b", "e=%20%2B", "uni=%C3%BC", "__AUTH=meta-token",
		"k1=v1", "k1=", "long=" + strings.Repeat("v", 40), "%00=%ff", "amp=%26%3D%3B", "A=b=c"}
	authGrammar = []string{"", "", "good", "Bearer abc.def", "tok en"}
	nameGrammar = []string{"", "Arith", "Mul", "com.example.Arith", "a/b", "x", "Fn", "mul", "NoSuch", "Arith.Mul", "ü"}
)

func pick(r *common.Rand, g []string) string { return g[r.Intn(len(g))] }

func genQuery(r *common.Rand, safe bool) string {
	n := r.Intn(5)
	if r.Chance(35) {
		return ""
	}
	var ps []string
	for i := 0; i <= n; i++ {
		p := pick(r, metaPieces)
		if !safe && r.Chance(10) {
			p = string(r.Bytes(1 + r.Intn(6)))
		}
		ps = append(ps, p)
	}
	return strings.Join(ps, "&")
}

func genFront(r *common.Rand, safe bool) frontHdr {
	h := frontHdr{}
	num := func(validBias int, valid []string) string {
		if r.Chance(validBias) {
			return pick(r, valid)
		}
		return pick(r, numGrammar)
	}
	h.id = num(50, []string{"", "0", "5", "123456789", "18446744073709551615"})
	h.hb = pick(r, flagGrammar)
	h.ow = pick(r, flagGrammar)
	h.ser = num(60, []string{"0", "1", "2", "3", "4"})
	h.comp = num(70, []string{"", "0", "1"})
	h.meta = genQuery(r, safe)
	h.auth = pick(r, authGrammar)
	h.path = pick(r, nameGrammar)
	h.meth = pick(r, nameGrammar)
	if r.Chance(70) {
		h.path, h.meth = pick(r, []string{"Arith", "com.example.Arith", "NoSuch"}), pick(r, []string{"Mul", "nometh"})
	}
	if r.Chance(15) {
		h.path = ""
	}
	if r.Chance(10) {
		h.meth = ""
	}
	h.body = string(r.Bytes(r.Intn(24)))
	if r.Chance(30) {
		h.body = `{"Id":1,"A":2,"B":3}`
	}
	h.urlpath = pick(r, []string{"/", "/", "/Arith", "/com.example.Arith", "/x/y", "/NoSuch"})
	h.chunked = r.Chance(30)
	if safe {
		// values that survive an HTTP/1.1 header unchanged: no control bytes, no blanks at the ends
		clean := func(s string) string {
			var b strings.Builder
			for _, c := range []byte(s) {
				if c >= 0x21 && c < 0x7f {
					b.WriteByte(c)
				} else if c == ' ' {
					b.WriteByte('_')
				}
			}
			return b.String()
		}
		h.id, h.hb, h.ow, h.ser, h.comp = clean(h.id), clean(h.hb), clean(h.ow), clean(h.ser), clean(h.comp)
		h.meta, h.auth, h.path, h.meth = clean(h.meta), clean(h.auth), clean(h.path), clean(h.meth)
	}
	return h
}

func doConv(o *common.Out, id string, h frontHdr) {
	line := h.line("conv")
	o.Begin(id, line)
	req, _ := http.NewRequest("POST", "http://x/", h.bodyReader())
	h.apply(req.Header)
	m, err := server.HTTPRequest2RpcxRequest(req)
	obs := "err"
	if err == nil && m != nil {
		obs = showReq(m)
	}
	o.Case(id, line, obs, true)
	if err != nil {
		o.Count("front=conv-error")
	} else {
		o.Count("front=conv-ok")
	}
}

var frontClient = &http.Client{Transport: &http.Transport{DisableKeepAlives: true}, Timeout: 3 * time.Second}

func doGw(o *common.Out, id string, rg *tcpRig, h frontHdr) {
	line := h.line("gw")
	o.Begin(id, line)
	before, inv0 := rg.rec.count(), rg.invokedCount()
	req, _ := http.NewRequest("POST", "http://"+rg.addr+h.urlpath, h.bodyReader())
	h.apply(req.Header)
	resp, err := frontClient.Do(req)
	if err != nil {
		// the native protocol answers every request it can read (with an error message at worst)
		o.Fail(id, "gateway-no-answer", "the gateway did not answer: "+err.Error(), line)
		return
	}
	io.Copy(io.Discard, resp.Body)
	resp.Body.Close()
	obs := "malformed"
	if rg.rec.count() > before {
		rg.rec.mu.Lock()
		obs = rg.rec.last
		rg.rec.mu.Unlock()
	}
	// the property read directly on what was sent: no service (neither header nor URL path), no method, no
	// serialize type, an id or type that is not a number => an error, and no handler
	_, idErr := strconv.ParseUint(h.id, 10, 64)
	_, serErr := strconv.Atoi(h.ser)
	missing := (h.path == "" && strings.TrimPrefix(h.urlpath, "/") == "") || h.meth == "" || h.ser == "" || (h.id != "" && idErr != nil) || serErr != nil
	isErr := resp.StatusCode != 200 || resp.Header.Get(server.XMessageStatusType) == "Error"
	if missing || obs == "malformed" {
		if !isErr {
			o.Fail(id, "malformed-not-rejected", "a malformed gateway request (missing service / method / serialize type, or a non-numeric id / type) was answered without an error", line)
		}
		time.Sleep(time.Millisecond)
		if rg.invokedCount() > inv0 {
			o.Fail(id, "handler-reached", "a malformed gateway request (missing service / method / serialize type, or a non-numeric id / type) ran a handler", line)
		}
	}
	if obs != "malformed" {
		// what the plugins and the authentication are handed is the request as the native protocol would carry it:
		// the service it is addressed to (header, or else the URL path) and the method
		wantPath := h.path
		if wantPath == "" {
			wantPath = strings.TrimPrefix(h.urlpath, "/")
		}
		if !strings.Contains(obs, " path="+hxs(wantPath)+" ") || !strings.Contains(obs, " meth="+hxs(h.meth)+" ") {
			o.Fail(id, "ingress-differs", fmt.Sprintf("a gateway request addressed to service %q, method %q reached the post-read stage as {%s}", wantPath, h.meth, obs), line)
		}
	}
	rg.drain()
	o.Case(id, line, obs, true)
	if obs == "malformed" {
		o.Count("front=gw-malformed")
	} else {
		o.Count("front=gw-forwarded")
	}
}

func doJr(o *common.Out, id string, rg *tcpRig, method, meta, auth, params string, hasID bool) {
	hid := "1"
	if !hasID {
		hid = "0"
	}
	line := fmt.Sprintf("jr %s %s %s %s %s", hxs(method), hxs(meta), hxs(auth), hxs(params), hid)
	o.Begin(id, line)
	msg := map[string]interface{}{"jsonrpc": "2.0", "method": method, "params": json.RawMessage(params)}
	if hasID {
		msg["id"] = 7
	}
	b, _ := json.Marshal(msg)
	before := rg.rec.count()
	req, _ := http.NewRequest("POST", "http://"+rg.addr+"/", bytes.NewReader(b))
	req.Header.Set("X-JSONRPC-2.0", "true")
	if meta != "" {
		req.Header.Set(server.XMeta, meta)
	}
	if auth != "" {
		req.Header.Set("Authorization", auth)
	}
	resp, err := frontClient.Do(req)
	if err != nil {
		o.Fail(id, "jsonrpc-no-answer", "the JSON-RPC endpoint did not answer: "+err.Error(), line)
		return
	}
	io.Copy(io.Discard, resp.Body)
	resp.Body.Close()
	obs := "malformed"
	// a notification is processed in its own goroutine: wait for it only when the model forwards it
	deadline := time.Now().Add(300 * time.Millisecond)
	for !hasID && rg.rec.count() == before && time.Now().Before(deadline) && strings.LastIndex(method, ".") > 0 {
		time.Sleep(time.Millisecond)
	}
	if rg.rec.count() > before {
		rg.rec.mu.Lock()
		obs = rg.rec.last
		rg.rec.mu.Unlock()
	}
	time.Sleep(time.Millisecond)
	rg.drain()
	o.Case(id, line, obs, true)
	if obs == "malformed" {
		o.Count("front=jr-malformed")
	} else {
		o.Count("front=jr-forwarded")
	}
}

// replayFront re-runs one stored front-end case line.
func replayFront(o *common.Out, rg *tcpRig, line string) {
	chunked := strings.HasSuffix(line, " +chunked")
	f := strings.Split(strings.TrimSuffix(line, " +chunked"), " ")
	u := func(i int) string {
		if i < len(f) {
			return string(unhx(f[i]))
		}
		return ""
	}
	switch f[0] {
	case "conv", "gw":
		h := frontHdr{id: u(1), hb: u(2), ow: u(3), ser: u(4), comp: u(5), meta: u(6), auth: u(7), path: u(8), meth: u(9), body: u(10), urlpath: u(11), chunked: chunked}
		if f[0] == "conv" {
			doConv(o, "replay", h)
		} else {
			doGw(o, "replay", rg, h)
		}
	case "jr":
		doJr(o, "replay", rg, u(1), u(2), u(3), u(4), len(f) > 5 && f[5] == "1")
	}
}

func runFrontEnds(r *common.Rand, tier string, o *common.Out, rg *tcpRig, next func() string) {
	nconv, ngw, njr := 1500, 250, 120
	if tier == "thorough" {
		nconv, ngw, njr = 60000, 4000, 1500
	}
	for i := 0; i < nconv; i++ {
		doConv(o, next(), genFront(r, false))
	}
	if rg == nil {
		return
	}
	// systematically: the service named in the header or only in the URL x each required header left out x a service that
	// takes a structure or raw bytes (for which the absent serialize type would read as "raw bytes")
	for _, svc := range []string{"Arith", "Raw"} {
		for _, inURL := range []bool{false, true} {
			for leave := 0; leave < 4; leave++ {
				h := frontHdr{id: "21", ser: "1", path: svc, meth: "Mul", body: `{"Id":1,"A":2,"B":3}`, urlpath: "/"}
				if svc == "Raw" {
					h.ser, h.body = "0", "1:2:3"
				}
				if inURL {
					h.path, h.urlpath = "", "/"+svc
				}
				if leave&1 != 0 {
					h.meth = ""
				}
				if leave&2 != 0 {
					h.ser = ""
				}
				doGw(o, next(), rg, h)
			}
		}
	}
	for i := 0; i < ngw; i++ {
		doGw(o, next(), rg, genFront(r, true))
	}
	methods := []string{"Arith.Mul", "com.example.Arith.Mul", ".Mul", "Arith.", "ArithMul", "", ".", "..", "a..b", "NoSuch.x", "a.b.c.d", "Arith.nometh", "x."}
	for i := 0; i < njr; i++ {
		method := pick(r, methods)
		meta, auth := genQuery(r, true), pick(r, authGrammar)
		meta = strings.Map(func(c rune) rune {
			if c < 0x21 || c >= 0x7f {
				return '_'
			}
			return c
		}, meta)
		auth = strings.ReplaceAll(auth, " ", "_")
		hasID := !r.Chance(20)
		params := pick(r, []string{`{"Id":1,"A":2,"B":3}`, `[1,2]`, `"s"`, `{}`})
		doJr(o, next(), rg, method, meta, auth, params, hasID)
	}
}
