package main

// C06 through the discovery client: two calls share the cached connection to a server; the first (the victim) is in
// flight while the second (the aggressor) ends in one of the ways a single call can fail - a service error, an empty
// service error, a reply of the wrong type, a response in a serialization the client has no codec for.  The victim's
// answer arrives afterwards: it must complete with it, on every fail mode.  Oracle only.

import (
	"context"
	"fmt"
	"sync/atomic"
	"time"

	"github.com/smallnest/rpcx/client"
	"github.com/smallnest/rpcx/protocol"

	"verifharness/internal/common"
)

var c06xSeq int64

func c06xRun(o *common.Out, id string, mode client.FailMode, aggressor string) {
	abstract := fmt.Sprintf("xiso|%d|%s", int(mode), aggressor)
	o.Begin(id, abstract)
	fail := func(sig, d string) { o.Fail(id, sig, d, abstract) }
	uid := atomic.AddInt64(&c06xSeq, 1)
	addr := fmt.Sprintf("c06x-%d", uid)
	ctrl := &bkCtrl{ev: make(chan bkEvent, 64)}
	// the victim's request arrives first, then the aggressor's; whatever else arrives (re-sent requests) is answered ok
	fs := &fakeServer{id: 0, calls: []string{"ok5", aggressor, "ok9", "ok9", "ok9", "ok9"}, ctrl: ctrl}
	registerFake(addr, fs)
	defer unregisterFake(addr)
	d, _ := client.NewPeer2PeerDiscovery("vsrv@"+addr, "")
	opt := client.DefaultOption
	opt.SerializeType = protocol.JSON
	opt.Heartbeat = false
	opt.Retries = 2
	xc := client.NewXClient("Svc", mode, client.RandomSelect, d, opt)
	defer xc.Close()
	nextArrive := func(what string) (bkEvent, bool) {
		deadline := time.After(3 * time.Second)
		for {
			select {
			case e := <-ctrl.ev:
				if e.kind == "arrive" {
					return e, true
				}
			case <-deadline:
				fail("call-stuck", what+": the request never reached the server")
				return bkEvent{}, false
			}
		}
	}
	type res struct {
		err   error
		reply int
	}
	vdone, adone := make(chan res, 1), make(chan res, 1)
	go func() {
		var r int
		err := xc.Call(context.Background(), "M", 1, &r)
		vdone <- res{err, r}
	}()
	ve, ok := nextArrive("the victim")
	if !ok {
		return
	}
	go func() {
		var r int
		err := xc.Call(context.Background(), "M", 2, &r)
		adone <- res{err, r}
	}()
	ae, ok := nextArrive("the aggressor")
	if !ok {
		return
	}
	close(ae.rel) // the aggressor's call ends now, in its own way
	// re-sent requests (fail-try / fail-over after a non-service error) are answered at once
	stop := make(chan struct{})
	go func() {
		for {
			select {
			case e := <-ctrl.ev:
				if e.kind == "arrive" {
					close(e.rel)
				}
			case <-stop:
				return
			}
		}
	}()
	defer close(stop)
	select {
	case <-adone:
	case <-time.After(4 * time.Second):
		fail("call-stuck", "the aggressor never returned")
	}
	select {
	case r := <-vdone:
		fail("victim-affected", fmt.Sprintf("the victim completed (err=%v) before its own answer was sent, when another call on the connection ended with %q", r.err, aggressor))
		return
	case <-time.After(5 * time.Millisecond):
	}
	close(ve.rel) // the victim's answer
	select {
	case r := <-vdone:
		if r.err != nil || r.reply != 5 {
			fail("victim-affected", fmt.Sprintf("the victim's call ended with err=%v reply=%d although the server answered it with 5: another call on the shared connection had ended with %q", r.err, r.reply, aggressor))
		}
	case <-time.After(4 * time.Second):
		fail("call-stuck", "the victim never completed although its answer was sent")
	}
	o.ImplOnly(id, abstract, true)
	o.Count("xclient-shared-connection")
}

func c06xAll(o *common.Out, prefix string) {
	k := 0
	for _, mode := range []client.FailMode{client.Failfast, client.Failtry, client.Failover} {
		for _, ag := range []string{"svc", "svc0", "mistyped", "badcodec", "ok7"} {
			k++
			c06xRun(o, fmt.Sprintf("%s-x%d", prefix, k), mode, ag)
		}
	}
}
