package main

// C06 through the discovery client: two calls share the cached connection to a server; the first (the victim) is in
// flight while the second (the aggressor) ends in one of the ways a single call can fail - a service error, an empty
// service error, a reply of the wrong type, a response in a serialization the client has no codec for.  The victim's
// answer arrives afterwards: it must complete with it, on every fail mode.  Oracle only.

import (
	"github.com/smallnest/rpcx/share"
	"github.com/smallnest/rpcx/server"
	"strings"
	"strconv"
	"context"
	"fmt"
	"sync/atomic"
	"time"

	"github.com/smallnest/rpcx/client"
	"github.com/smallnest/rpcx/protocol"

	"verifharness/internal/common"
)

var c06xSeq int64

func c06xRun(o *common.Out, id string, mode client.FailMode, aggressor string) {
	abstract := fmt.Sprintf("xiso|%d|%s", int(mode), aggressor)
	o.Begin(id, abstract)
	fail := func(sig, d string) { o.Fail(id, sig, d, abstract) }
	uid := atomic.AddInt64(&c06xSeq, 1)
	addr := fmt.Sprintf("c06x-%d", uid)
	ctrl := &bkCtrl{ev: make(chan bkEvent, 64)}
	// the victim's request arrives first, then the aggressor's; whatever else arrives (re-sent requests) is answered ok
	fs := &fakeServer{id: 0, calls: []string{"ok5", aggressor, "ok9", "ok9", "ok9", "ok9"}, ctrl: ctrl}
	registerFake(addr, fs)
	defer unregisterFake(addr)
	d, _ := client.NewPeer2PeerDiscovery("vsrv@"+addr, "")
	opt := client.DefaultOption
	opt.SerializeType = protocol.JSON
	opt.Heartbeat = false
	opt.Retries = 2
	xc := client.NewXClient("Svc", mode, client.RandomSelect, d, opt)
	defer xc.Close()
	nextArrive := func(what string) (bkEvent, bool) {
		deadline := time.After(3 * time.Second)
		for {
			select {
			case e := <-ctrl.ev:
				if e.kind == "arrive" {
					return e, true
				}
			case <-deadline:
				fail("call-stuck", what+": the request never reached the server")
				return bkEvent{}, false
			}
		}
	}
	type res struct {
		err   error
		reply int
	}
	vdone, adone := make(chan res, 1), make(chan res, 1)
	go func() {
		var r int
		err := xc.Call(context.Background(), "M", 1, &r)
		vdone <- res{err, r}
	}()
	ve, ok := nextArrive("the victim")
	if !ok {
		return
	}
	go func() {
		var r int
		err := xc.Call(context.Background(), "M", 2, &r)
		adone <- res{err, r}
	}()
	ae, ok := nextArrive("the aggressor")
	if !ok {
		return
	}
	close(ae.rel) // the aggressor's call ends now, in its own way
	// re-sent requests (fail-try / fail-over after a non-service error) are answered at once
	stop := make(chan struct{})
	go func() {
		for {
			select {
			case e := <-ctrl.ev:
				if e.kind == "arrive" {
					close(e.rel)
				}
			case <-stop:
				return
			}
		}
	}()
	defer close(stop)
	select {
	case <-adone:
	case <-time.After(4 * time.Second):
		fail("call-stuck", "the aggressor never returned")
	}
	select {
	case r := <-vdone:
		fail("victim-affected", fmt.Sprintf("the victim completed (err=%v) before its own answer was sent, when another call on the connection ended with %q", r.err, aggressor))
		return
	case <-time.After(5 * time.Millisecond):
	}
	close(ve.rel) // the victim's answer
	select {
	case r := <-vdone:
		if r.err != nil || r.reply != 5 {
			fail("victim-affected", fmt.Sprintf("the victim's call ended with err=%v reply=%d although the server answered it with 5: another call on the shared connection had ended with %q", r.err, r.reply, aggressor))
		}
	case <-time.After(4 * time.Second):
		fail("call-stuck", "the victim never completed although its answer was sent")
	}
	o.ImplOnly(id, abstract, true)
	o.Count("xclient-shared-connection")
}

func c06xAll(o *common.Out, prefix string) {
	k := 0
	for _, mode := range []client.FailMode{client.Failfast, client.Failtry, client.Failover} {
		for _, ag := range []string{"svc", "svc0", "mistyped", "badcodec", "ok7"} {
			k++
			c06xRun(o, fmt.Sprintf("%s-x%d", prefix, k), mode, ag)
		}
	}
}

// c06Real: a real server (options: "", "async", "pool", "async+pool") and one client connection.  The aggressor's call
// carries a deadline (as the discovery client sends it: the __ServerTimeout metadata) and times out while its handler
// is held; afterwards - the deadline long past - the victim calls on the same connection without any deadline of its
// own and gets its result; so does a second victim issued before the aggressor's handler is let go.  Oracle only.
// case: real|<server options>
func c06Real(o *common.Out, id string, sopt string) {
	abstract := "real|" + sopt
	o.Begin(id, abstract)
	o.Count("timed-out-call-next-to-others-on-a-real-server")
	var opts []server.OptionFn
	if strings.Contains(sopt, "async") {
		opts = append(opts, server.WithAsyncWrite())
	}
	if strings.Contains(sopt, "pool") {
		opts = append(opts, server.WithPool(4, 64))
	}
	rig := newSrvRig(true, opts...)
	rig.start()
	defer rig.stop()
	copt := client.DefaultOption
	copt.SerializeType = protocol.JSON
	copt.Heartbeat = false
	cl, err := rig.realClient(copt)
	if err != nil {
		o.Fail(id, "rig", err.Error(), abstract)
		return
	}
	defer cl.Close()
	type res struct {
		c   int
		err error
	}
	call := func(rid, a, b int, timeout time.Duration, withDeadlineMeta bool) chan res {
		ch := make(chan res, 1)
		go func() {
			ctx, cancel := context.WithTimeout(context.Background(), timeout)
			defer cancel()
			if withDeadlineMeta {
				ctx = context.WithValue(ctx, share.ReqMetaDataKey, map[string]string{share.ServerTimeout: strconv.Itoa(int(timeout / time.Millisecond))})
			}
			var rep SReply
			err := cl.Call(ctx, "Arith", "Mul", &SArgs{Id: rid, A: a, B: b, Mode: "ok"}, &rep)
			ch <- res{rep.C, err}
		}()
		return ch
	}
	waitEntered := func(what string) bool {
		select {
		case <-rig.h.entered:
			return true
		case <-time.After(12 * time.Second):
			o.Fail(id, "rig", what+" never reached its handler", abstract)
			return false
		}
	}
	ag := call(0, 2, 3, 150*time.Millisecond, true)
	if !waitEntered("the aggressor") {
		return
	}
	v1 := call(1, 4, 5, 5*time.Second, false) // in flight while the aggressor times out
	if !waitEntered("the first victim") {
		return
	}
	if r := <-ag; r.err == nil {
		o.Fail(id, "rig", "the aggressor did not time out", abstract)
		return
	}
	time.Sleep(60 * time.Millisecond) // the aggressor's deadline is well past
	rig.h.release(0)
	rig.h.release(1)
	check := func(what string, ch chan res, want int) {
		select {
		case r := <-ch:
			if r.err != nil || r.c != want {
				o.Fail(id, "foreign-timeout", fmt.Sprintf("%s (no deadline of its own, the server answered) ended with %d, %v after another call on the connection had timed out", what, r.c, r.err), abstract)
			}
		case <-time.After(6 * time.Second):
			o.Fail(id, "left-hanging", what+" never returned", abstract)
		}
	}
	check("the victim in flight during the time-out", v1, 20)
	v2 := call(2, 6, 7, 5*time.Second, false)
	if !waitEntered("the later victim") {
		return
	}
	rig.h.release(2)
	check("the victim issued after the time-out", v2, 42)
	o.ImplOnly(id, abstract, true)
}
