package main

// C15: the stock access-control plugins (serverplugin/whitelist.go, blacklist.go, req_rate_limiting.go).
//   stock wl|bl <addr ok> <in list> <mask bits>   the plugin's HandleConnAccept on a connection whose remote address is
//                                                 given; the booleans are true by construction of the case
//   stock rate <capacity> <n>                     n requests against a bucket that is not refilled meanwhile
// and, end to end, a real server on loopback with each plugin configured to refuse / admit 127.0.0.1: a refused
// connection reaches no handler and gets no result on any ingress.

import (
	"context"
	"fmt"
	"net"
	"strings"
	"time"

	"github.com/smallnest/rpcx/protocol"
	"github.com/smallnest/rpcx/server"
	"github.com/smallnest/rpcx/serverplugin"

	"verifharness/internal/common"
)

type addrConn struct {
	net.Conn
	remote string
}
type strAddr string

func (a strAddr) Network() string       { return "tcp" }
func (a strAddr) String() string        { return string(a) }
func (c addrConn) RemoteAddr() net.Addr { return strAddr(c.remote) }

func cidr(s string) *net.IPNet { _, n, _ := net.ParseCIDR(s); return n }

func runStockPlugins(o *common.Out, next func() string) {
	type acase struct {
		remote string
		addrOK bool
		list   []string
		inList bool
		masks  []string
		inMask []bool
	}
	cases := []acase{
		{"10.1.2.3:99", true, []string{"10.1.2.3"}, true, nil, nil},
		{"10.1.2.3:99", true, []string{"10.1.2.4"}, false, nil, nil},
		{"10.1.2.3:99", true, nil, false, []string{"10.0.0.0/8"}, []bool{true}},
		{"10.1.2.3:99", true, nil, false, []string{"192.168.0.0/16"}, []bool{false}},
		{"10.1.2.3:99", true, nil, false, []string{"192.168.0.0/16", "10.1.2.0/24"}, []bool{false, true}},
		{"10.1.2.3:99", true, []string{"10.1.2.3"}, true, []string{"172.16.0.0/12"}, []bool{false}},
		{"192.168.7.9:1", true, []string{"10.1.2.3", "10.1.2.4"}, false, []string{"10.0.0.0/8", "192.168.8.0/24"}, []bool{false, false}},
		{"192.168.7.9:1", true, nil, false, []string{"192.168.7.9/32"}, []bool{true}},
		{"192.168.7.9:1", true, nil, false, []string{"192.168.7.8/31"}, []bool{true}},
		{"192.168.7.9:1", true, nil, false, []string{"192.168.7.10/31"}, []bool{false}},
		{"[::1]:8972", true, []string{"::1"}, true, nil, nil},
		{"[::1]:8972", true, []string{"127.0.0.1"}, false, []string{"127.0.0.0/8"}, []bool{false}},
		{"[2001:db8::5]:80", true, nil, false, []string{"2001:db8::/32"}, []bool{true}},
		{"[2001:db9::5]:80", true, nil, false, []string{"2001:db8::/32"}, []bool{false}},
		{"127.0.0.1:50000", true, nil, false, nil, nil},
		{"127.0.0.1:50000", true, []string{"127.0.0.1"}, true, []string{"127.0.0.0/8"}, []bool{true}},
		{"pipe", false, []string{"pipe"}, false, nil, nil},            // not host:port
		{"", false, nil, false, []string{"0.0.0.0/0"}, []bool{false}}, // not host:port
		{"0.0.0.0:1", true, nil, false, []string{"0.0.0.0/0"}, []bool{true}},
		{"255.255.255.255:1", true, nil, false, []string{"0.0.0.0/0", "255.255.255.255/32"}, []bool{true, true}},
	}
	b := func(x bool) string {
		if x {
			return "1"
		}
		return "0"
	}
	for _, c := range cases {
		lm := map[string]bool{}
		for _, l := range c.list {
			lm[l] = true
		}
		var ms []*net.IPNet
		mb := ""
		for i, m := range c.masks {
			ms = append(ms, cidr(m))
			mb += b(c.inMask[i])
		}
		if mb == "" {
			mb = "-"
		}
		for _, kind := range []string{"wl", "bl"} {
			id := next()
			line := fmt.Sprintf("stock %s %s %s %s", kind, b(c.addrOK), b(c.inList), mb)
			abstract := fmt.Sprintf("stock|%s|%s|%s|%s", kind, c.remote, strings.Join(c.list, ","), strings.Join(c.masks, ","))
			o.Begin(id, abstract)
			var ok bool
			if kind == "wl" {
				_, ok = (&serverplugin.WhitelistPlugin{Whitelist: lm, WhitelistMask: ms}).HandleConnAccept(addrConn{remote: c.remote})
			} else {
				_, ok = (&serverplugin.BlacklistPlugin{Blacklist: lm, BlacklistMask: ms}).HandleConnAccept(addrConn{remote: c.remote})
			}
			named := c.addrOK && (c.inList || strings.Contains(mb, "1"))
			if kind == "wl" && ok && !named {
				o.Fail(id, "handler-reached", fmt.Sprintf("the whitelist plugin admitted a connection from %q, which neither its list %v nor its masks %v name", c.remote, c.list, c.masks), abstract)
			}
			if kind == "bl" && ok && named {
				o.Fail(id, "handler-reached", fmt.Sprintf("the blacklist plugin admitted a connection from %q, which its list %v or its masks %v name", c.remote, c.list, c.masks), abstract)
			}
			obs := "veto"
			if ok {
				obs = "admit"
			}
			o.Case(id, line, obs, true)
			o.Count("stock=" + kind)
		}
	}
	// the rate limiter: the first `capacity` requests pass, the rest are refused (no refill within the test)
	for _, capn := range [][2]int{{1, 3}, {2, 5}, {3, 3}, {4, 9}} {
		id := next()
		line := fmt.Sprintf("stock rate %d %d", capn[0], capn[1])
		o.Begin(id, line)
		p := serverplugin.NewReqRateLimitingPlugin(time.Hour, int64(capn[0]), false)
		var obs []string
		for i := 0; i < capn[1]; i++ {
			err := p.PostReadRequest(context.Background(), protocol.NewMessage(), nil)
			if err == nil {
				obs = append(obs, "1")
				if i >= capn[0] {
					o.Fail(id, "handler-reached", fmt.Sprintf("the rate limiter (capacity %d, no refill) let request number %d pass", capn[0], i+1), line)
				}
			} else {
				obs = append(obs, "0")
			}
		}
		o.Case(id, line, strings.Join(obs, ""), true)
		o.Count("stock=rate")
	}
	// end to end on loopback (the peer is 127.0.0.1)
	type e2e struct {
		name   string
		plugin interface{}
		admit  bool
	}
	for _, e := range []e2e{
		{"whitelist-empty", &serverplugin.WhitelistPlugin{}, false},
		{"whitelist-other", &serverplugin.WhitelistPlugin{Whitelist: map[string]bool{"10.9.9.9": true}, WhitelistMask: []*net.IPNet{cidr("10.0.0.0/8")}}, false},
		{"whitelist-loopback", &serverplugin.WhitelistPlugin{Whitelist: map[string]bool{"127.0.0.1": true}}, true},
		{"whitelist-mask", &serverplugin.WhitelistPlugin{WhitelistMask: []*net.IPNet{cidr("127.0.0.0/8")}}, true},
		{"blacklist-loopback", &serverplugin.BlacklistPlugin{Blacklist: map[string]bool{"127.0.0.1": true}}, false},
		{"blacklist-mask", &serverplugin.BlacklistPlugin{BlacklistMask: []*net.IPNet{cidr("127.0.0.0/8")}}, false},
		{"blacklist-other", &serverplugin.BlacklistPlugin{Blacklist: map[string]bool{"10.9.9.9": true}}, true},
		{"ratelimit-0", serverplugin.NewReqRateLimitingPlugin(time.Hour, 1, false), false}, // its only token is taken by a warm-up request
	} {
		for _, late := range []bool{false, true} {
			if late && e.admit {
				continue
			}
			var rg *tcpRig
			var err error
			if late {
				// the plugin is installed while the server is already serving (an operator blocks an address at run time)
				rg, err = newTCPRigWith(nil)
				if err == nil {
					rg.srv.Plugins.Add(e.plugin)
				}
			} else {
				rg, err = newTCPRigWith(e.plugin)
			}
			if err != nil {
				continue
			}
			if e.name == "ratelimit-0" {
				rg.do(ingReq{ing: "native", path: "Arith", method: "Mul", id: 1, a: 1, b: 1, mode: "ok", seq: 1})
				rg.drain()
			}
			for _, ing := range []string{"native", "gateway", "jsonrpc"} {
				id := next()
				q := ingReq{ing: ing, token: "good", path: "Arith", method: "Mul", id: 7, a: 2, b: 3, mode: "ok", seq: 9}
				abstract := "stocke2e|" + e.name + "|" + ing
				if late {
					abstract += "|installed-while-serving"
				}
				o.Begin(id, abstract)
				before := rg.invokedCount()
				res := rg.do(q)
				time.Sleep(5 * time.Millisecond)
				inv := rg.invokedCount() - before
				rg.drain()
				if !e.admit && inv > 0 {
					o.Fail(id, "handler-reached", fmt.Sprintf("%s: a request the plugin refuses ran %d handler(s) through %s", e.name, inv, ing), abstract)
				}
				if !e.admit && res.kind == "result" {
					o.Fail(id, "result-for-rejected", fmt.Sprintf("%s: a request the plugin refuses got a result through %s", e.name, ing), abstract)
				}
				if e.admit && (inv != 1 || res.kind != "result") {
					o.Fail(id, "admitted-not-served", fmt.Sprintf("%s: a request from an admitted address was not served through %s (handlers=%d, outcome=%s)", e.name, ing, inv, res.kind), abstract)
				}
				o.ImplOnly(id, abstract, true)
				o.Count("stock-e2e=" + e.name)
			}
			rg.stop()
		}
	}
}

// a TCP rig with one extra plugin
func newTCPRigWith(plugin interface{}) (*tcpRig, error) {
	rg := &tcpRig{h: newHandlerEnv(false), done: make(chan error, 1), rec: &reqRecorder{}}
	s := server.NewServer()
	rg.srv = s
	s.RegisterName("Arith", &Arith{h: rg.h}, "")
	if plugin != nil {
		s.Plugins.Add(plugin)
	}
	ln, err := net.Listen("tcp", "127.0.0.1:0")
	if err != nil {
		return nil, err
	}
	rg.addr = ln.Addr().String()
	go func() { rg.done <- s.ServeListener("tcp", ln) }()
	select {
	case <-s.Started:
	case <-time.After(2 * time.Second):
	}
	time.Sleep(5 * time.Millisecond)
	return rg, nil
}
