package main

// Scripted servers for the discovery-client properties (C10, C17, C14): a custom network "vsrv"
// registered in client.ConnFactories whose per-address behaviour follows a script
// (dial accepted / refused; per request: answer, service error, hang up, stay silent).

import (
	"bufio"
	"encoding/binary"
	"errors"
	"fmt"
	"io"
	"net"
	"strconv"
	"sync"
	"time"

	"github.com/smallnest/rpcx/client"
	"github.com/smallnest/rpcx/protocol"

	"verifharness/internal/refcodec"
)

type fakeServer struct {
	mu      sync.Mutex
	id      int
	dials   []bool   // consumed per dial; empty = accept
	calls   []string // consumed per request: ok<r> svc lost ctx dl slow<ms>:ok<r> ; empty = ok0
	onCtx   func()   // invoked when a request scripted "ctx" arrives
	onDL    func()   // invoked when a request scripted "dl" arrives (the caller's deadline passes now)
	nDials  int
	log     *attemptLog
	conns   []net.Conn
	delayMs int     // delay before every answer (C17 completion orders)
	acted   func()  // invoked after a scripted action other than silence has been carried out
	slowDial time.Duration // an accepted dial takes this long (a distant or busy server)
	dialing  chan struct{} // when set: an accepted dial reports here that it has begun ...
	dialGate chan struct{} // ... and completes when this is closed
	ctrl    *bkCtrl // fail-backup schedules: every dial and every arriving request is reported, answers are held
	wmu     sync.Mutex
	byArg   map[string]string // when set: the action is chosen by the request's payload, not by arrival order
	fixed   string            // when set: every request gets this action
	timeout bool              // a refused dial fails the way a connect timeout does (a genuine net timeout error)
}

// events of a fail-backup schedule, in the order they happen
type bkEvent struct {
	kind string // dial | arrive
	srv  int
	ok   bool          // dial: accepted
	act  string        // arrive: the scripted outcome
	rel  chan struct{} // arrive: closing it lets the server act
	at   time.Time     // arrive: when the request was read
}
type bkCtrl struct{ ev chan bkEvent }

type attemptLog struct {
	mu  sync.Mutex
	ent []string
}

func (l *attemptLog) add(s string) {
	l.mu.Lock()
	l.ent = append(l.ent, s)
	l.mu.Unlock()
}
func (l *attemptLog) snapshot() []string {
	l.mu.Lock()
	defer l.mu.Unlock()
	return append([]string{}, l.ent...)
}

var (
	fakeMu   sync.Mutex
	fakeSrvs = map[string]*fakeServer{}
)

func registerFake(addr string, s *fakeServer) {
	fakeMu.Lock()
	fakeSrvs[addr] = s
	fakeMu.Unlock()
}
func unregisterFake(addr string) {
	fakeMu.Lock()
	s := fakeSrvs[addr]
	delete(fakeSrvs, addr)
	fakeMu.Unlock()
	if s != nil {
		s.mu.Lock()
		for _, c := range s.conns {
			c.Close()
		}
		s.mu.Unlock()
	}
}

func init() {
	client.ConnFactories["vsrv"] = func(c *client.Client, network, address string) (net.Conn, error) {
		fakeMu.Lock()
		s := fakeSrvs[address]
		fakeMu.Unlock()
		if s == nil {
			return nil, errors.New("vsrv: connection refused (no such server)")
		}
		s.mu.Lock()
		s.nDials++
		ok := true
		if len(s.dials) > 0 {
			ok = s.dials[0]
			s.dials = s.dials[1:]
		}
		ctrl := s.ctrl
		s.mu.Unlock()
		if ctrl != nil {
			ctrl.ev <- bkEvent{kind: "dial", srv: s.id, ok: ok}
		}
		if !ok {
			if s.timeout {
				// what net.Dial returns when Option.ConnectTimeout passes: a *net.OpError wrapping net's timeout error
				d := net.Dialer{Deadline: time.Now().Add(-time.Second)}
				_, err := d.Dial("tcp", "127.0.0.1:9")
				if err != nil {
					return nil, err
				}
			}
			return nil, errors.New("vsrv: connection refused")
		}
		if s.slowDial > 0 {
			time.Sleep(s.slowDial)
		}
		if s.dialGate != nil {
			select {
			case s.dialing <- struct{}{}:
			default:
			}
			<-s.dialGate
		}
		a, b := net.Pipe()
		s.mu.Lock()
		s.conns = append(s.conns, b)
		s.mu.Unlock()
		go s.serve(b)
		return a, nil
	}
}

func (s *fakeServer) serve(conn net.Conn) {
	defer conn.Close()
	r := bufio.NewReader(conn)
	for {
		hdr := make([]byte, 16)
		if _, err := io.ReadFull(r, hdr); err != nil {
			return
		}
		total := int(binary.BigEndian.Uint32(hdr[12:16]))
		body := make([]byte, total)
		if _, err := io.ReadFull(r, body); err != nil {
			return
		}
		f, err := refcodec.Parse(append(hdr, body...))
		if err != nil {
			return
		}
		if f.Header[2]&0x40 != 0 { // heartbeat: echo
			continue
		}
		if string(f.Method) == "warmup" {
			// a call outside the script (it makes this server the client's sticky one): answered at once
			s.respond(conn, f, "ok0", 0, nil)
			continue
		}
		s.mu.Lock()
		act := "ok0"
		if len(s.calls) > 0 {
			act = s.calls[0]
			s.calls = s.calls[1:]
		}
		if s.byArg != nil {
			act = s.byArg[string(f.Raw)]
		}
		if s.fixed != "" {
			act = s.fixed
		}
		delay := s.delayMs
		onCtx := s.onCtx
		s.mu.Unlock()
		if s.log != nil {
			la := act
			if la == "svc0" {
				la = "svc" // the same outcome; only the error text differs (it is empty)
			}
			s.log.add(fmt.Sprintf("s%d:%s", s.id, la))
		}
		if s.ctrl != nil {
			rel := make(chan struct{})
			s.ctrl.ev <- bkEvent{kind: "arrive", srv: s.id, act: act, rel: rel, at: time.Now()}
			go func(f *refcodec.Frame, act string) {
				<-rel
				s.respond(conn, f, act, 0, onCtx)
			}(f, act)
			continue
		}
		ok := s.respond(conn, f, act, delay, onCtx)
		if s.acted != nil && act != "silent" {
			s.acted()
		}
		if !ok {
			return
		}
	}
}

// respond acts on one request as scripted; false = the connection is gone
func (s *fakeServer) respond(conn net.Conn, f *refcodec.Frame, act string, delay int, onCtx func()) bool {
	if delay > 0 {
		time.Sleep(time.Duration(delay) * time.Millisecond)
	}
	oneway := f.Header[2]&0x20 != 0
	switch {
	case act == "lost":
		conn.Close()
		return false
	case act == "ctx":
		if onCtx != nil {
			onCtx()
		}
		return true // never answers
	case act == "dl":
		if s.onDL != nil {
			s.onDL()
		}
		return true // never answers
	case act == "silent":
		return true
	}
	if oneway {
		return true
	}
	var h [12]byte
	copy(h[:], f.Header[:])
	h[2] = (h[2] &^ 0x1c) | 0x80 // response, uncompressed
	var meta []refcodec.KV
	var payload []byte
	if act == "svc0" {
		// a service error whose text is empty (errors.New("") in a handler): still a service error
		h[2] |= 0x01
		meta = []refcodec.KV{{K: []byte(protocol.ServiceError), V: []byte{}}}
	} else if act == "svc" {
		h[2] |= 0x01
		meta = []refcodec.KV{{K: []byte(protocol.ServiceError), V: []byte(fmt.Sprintf("svc-error-from-s%d", s.id))}}
	} else if act == "badcodec" { // a Normal response whose serialize type no codec is registered for
		h[3] = 15 << 4
		payload = []byte("1")
	} else if act == "mistyped" { // a Normal response whose payload does not fit the caller's reply type
		payload = []byte(`"oops"`)
	} else if len(act) > 3 && act[:3] == "js:" { // success with a literal JSON reply
		payload = []byte(act[3:])
	} else { // ok<r>
		n, _ := strconv.Atoi(act[2:])
		payload = []byte(strconv.Itoa(n))
	}
	out := refcodec.Build(h, f.Path, f.Method, meta, payload)
	s.wmu.Lock()
	_, err := conn.Write(out)
	s.wmu.Unlock()
	return err == nil
}
