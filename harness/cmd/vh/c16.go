package main

// C16: graceful shutdown.  Forced schedules on the in-memory server rig: every request is parked at
// each of its steps by a gate, and Shutdown / Close / deadline expiry / new connections / new requests
// are issued at chosen points in between.
//
//   G0  PostConnAccept plugin          connection accepted, not yet served
//   (pre-read plugin: signal only)     the reader passed the loop-top check and is about to read
//   G1  PostReadRequest plugin         request decoded (and counted), not yet dispatched
//   G2  hook server.process.enter      goroutine spawned / pool task dequeued, not yet processed
//       (worker-pool mode: the custom pool holds the task instead)
//   G3  handler entry                  handler running
//   G4  connection Write               response about to be written
//   G5  PostWriteResponse plugin       response written, request still counted
//
// Each action of a schedule expands statically (from the request's kind only) into the model events it
// attempts; the model decides which of them are enabled.  After every action both sides print a
// snapshot: in-progress count, highest gate reached per request, responses delivered, state of every
// Shutdown call, state of Serve.  Polls of the wait loop are observed through the server's logger.

import (
	"net/http"
	"io"
	"bufio"
	"context"
	"encoding/binary"
	"encoding/json"
	"errors"
	"fmt"
	"net"
	"os"
	"sort"
	"strconv"
	"strings"
	"sync"
	"sync/atomic"
	"time"

	rlog "github.com/smallnest/rpcx/log"
	"github.com/smallnest/rpcx/protocol"
	"github.com/smallnest/rpcx/server"
	"github.com/smallnest/rpcx/verifhook"

	"verifharness/internal/common"
	"verifharness/internal/refcodec"
)

func init() { props["C16"] = runShutdown }

// ---------- gates ----------
type gateSet struct {
	mu   sync.Mutex
	hit  map[string]chan struct{}
	rel  map[string]chan struct{}
	dead bool
}

func newGateSet() *gateSet {
	return &gateSet{hit: map[string]chan struct{}{}, rel: map[string]chan struct{}{}}
}
func (g *gateSet) chans(k string) (chan struct{}, chan struct{}) {
	g.mu.Lock()
	defer g.mu.Unlock()
	if g.hit[k] == nil {
		g.hit[k] = make(chan struct{})
		g.rel[k] = make(chan struct{})
		if g.dead {
			close(g.rel[k])
		}
	}
	return g.hit[k], g.rel[k]
}
func (g *gateSet) arrive(k string) {
	h, r := g.chans(k)
	g.mu.Lock()
	select {
	case <-h:
	default:
		close(h)
	}
	g.mu.Unlock()
	<-r
}
func (g *gateSet) release(k string) {
	_, r := g.chans(k)
	g.mu.Lock()
	select {
	case <-r:
	default:
		close(r)
	}
	g.mu.Unlock()
}
func (g *gateSet) isHit(k string) bool {
	h, _ := g.chans(k)
	select {
	case <-h:
		return true
	default:
		return false
	}
}
func (g *gateSet) waitHit(k string, d time.Duration) bool {
	h, _ := g.chans(k)
	select {
	case <-h:
		return true
	case <-time.After(d):
		return false
	}
}
func (g *gateSet) kill() {
	g.mu.Lock()
	g.dead = true
	for _, r := range g.rel {
		select {
		case <-r:
		default:
			close(r)
		}
	}
	g.mu.Unlock()
}

// ---------- logger that observes the polls of Shutdown's wait loop ----------
type sdLogger struct {
	mu    sync.Mutex
	polls []int32
	cond  *sync.Cond
}

func newSdLogger() *sdLogger { l := &sdLogger{}; l.cond = sync.NewCond(&l.mu); return l }
func (l *sdLogger) Info(v ...interface{}) {
	if len(v) == 2 {
		if s, ok := v[0].(string); ok && strings.HasPrefix(s, "need handle in-processing msg size") {
			if n, ok := v[1].(int32); ok {
				l.mu.Lock()
				l.polls = append(l.polls, n)
				l.cond.Broadcast()
				l.mu.Unlock()
			}
		}
	}
}
func (l *sdLogger) count() int                             { l.mu.Lock(); defer l.mu.Unlock(); return len(l.polls) }
func (l *sdLogger) Debug(v ...interface{})                 {}
func (l *sdLogger) Debugf(format string, v ...interface{}) {}
func (l *sdLogger) Infof(format string, v ...interface{})  {}
func (l *sdLogger) Warn(v ...interface{})                  {}
func (l *sdLogger) Warnf(format string, v ...interface{})  {}
func (l *sdLogger) Error(v ...interface{})                 {}
func (l *sdLogger) Errorf(format string, v ...interface{}) {}
func (l *sdLogger) Fatal(v ...interface{})                 {}
func (l *sdLogger) Fatalf(format string, v ...interface{}) {}
func (l *sdLogger) Panic(v ...interface{})                 {}
func (l *sdLogger) Panicf(format string, v ...interface{}) {}

// ---------- the rig ----------
type sdReq struct {
	id, conn int
	kind     string // n h l a j
	ow       bool
}

func (q sdReq) writes() bool {
	switch q.kind {
	case "h":
		return true
	case "j":
		return false
	}
	return !q.ow
}

type sdRig struct {
	srv       *server.Server
	ln        *pipeListener
	g         *gateSet
	log       *sdLogger
	pool      bool
	serveDone chan error
	serveErr  error
	served    bool

	mu       sync.Mutex
	reqs     map[int]sdReq
	connIdx  map[net.Conn]int
	nAccept  int
	preCount map[int]int
	cur      int // the request being dispatched (worker-pool mode)
	started  []int
	writeRes map[int]chan error
	cond     *sync.Cond
}

type sdConn struct {
	net.Conn
	rig *sdRig
}

func (c *sdConn) Write(b []byte) (int, error) {
	if len(b) >= 12 {
		r := int(binary.BigEndian.Uint64(b[4:12]))
		c.rig.g.arrive("g4:" + strconv.Itoa(r))
		n, err := c.Conn.Write(b)
		c.rig.mu.Lock()
		ch := c.rig.writeRes[r]
		c.rig.mu.Unlock()
		if ch != nil {
			select {
			case ch <- err:
			default:
			}
		}
		return n, err
	}
	return c.Conn.Write(b)
}

type sdPlugin struct{ rig *sdRig }

func (p *sdPlugin) HandleConnAccept(conn net.Conn) (net.Conn, bool) {
	p.rig.mu.Lock()
	idx := p.rig.nAccept
	p.rig.nAccept++
	w := &sdConn{Conn: conn, rig: p.rig}
	p.rig.connIdx[w] = idx
	p.rig.mu.Unlock()
	p.rig.g.arrive("g0:" + strconv.Itoa(idx))
	return w, true
}
func (p *sdPlugin) PreReadRequest(ctx context.Context) error {
	if c, ok := ctx.Value(server.RemoteConnContextKey).(net.Conn); ok {
		p.rig.mu.Lock()
		if idx, ok := p.rig.connIdx[c]; ok {
			p.rig.preCount[idx]++
			p.rig.cond.Broadcast()
		}
		p.rig.mu.Unlock()
	}
	return nil
}
func (p *sdPlugin) PostReadRequest(ctx context.Context, r *protocol.Message, e error) error {
	if e != nil || r == nil {
		return nil
	}
	id := int(r.Seq())
	p.rig.g.arrive("g1:" + strconv.Itoa(id))
	p.rig.mu.Lock()
	q := p.rig.reqs[id]
	p.rig.cur = id
	p.rig.mu.Unlock()
	switch q.kind {
	case "l":
		return server.ErrReqReachLimit
	case "j":
		return errors.New("rejected by a plugin")
	}
	return nil
}
func (p *sdPlugin) PostWriteResponse(ctx context.Context, req, res *protocol.Message, e error) error {
	if req != nil {
		p.rig.g.arrive("g5:" + strconv.Itoa(int(req.Seq())))
	}
	return nil
}

// the worker pool of pool mode: a task is held until the harness lets it start
type sdPool struct{ rig *sdRig }

func (p *sdPool) Submit(task func()) {
	p.rig.mu.Lock()
	id := p.rig.cur
	p.rig.mu.Unlock()
	go func() {
		p.rig.g.arrive("g2:" + strconv.Itoa(id))
		task()
	}()
}
func (p *sdPool) StopAndWaitFor(deadline time.Duration) {}
func (p *sdPool) Stop() context.Context                 { return context.Background() }
func (p *sdPool) StopAndWait()                          {}

type SdSvc struct{ rig *sdRig }

func (t *SdSvc) Mul(ctx context.Context, a *SArgs, r *SReply) error {
	t.rig.mu.Lock()
	t.rig.started = append(t.rig.started, a.Id)
	t.rig.mu.Unlock()
	t.rig.g.arrive("g3:" + strconv.Itoa(a.Id))
	r.Id, r.C = a.Id, a.A*a.B
	return nil
}

func newSdRig(pool bool, reqs []sdReq) *sdRig {
	r := &sdRig{ln: newPipeListener(), g: newGateSet(), log: newSdLogger(), pool: pool, serveDone: make(chan error, 1),
		reqs: map[int]sdReq{}, connIdx: map[net.Conn]int{}, preCount: map[int]int{}, writeRes: map[int]chan error{}}
	r.cond = sync.NewCond(&r.mu)
	for _, q := range reqs {
		r.reqs[q.id] = q
		r.writeRes[q.id] = make(chan error, 1)
	}
	rlog.SetLogger(r.log)
	if pool {
		r.srv = server.NewServer(server.WithCustomPool(&sdPool{rig: r}))
	} else {
		r.srv = server.NewServer()
	}
	r.srv.Plugins.Add(&sdPlugin{rig: r})
	// a registry plugin whose Unregister fails (the registry is unreachable at shutdown): draining goes on all the same
	r.srv.Plugins.Add(&sdRegistry{down: atomic.AddInt64(&sdRigCount, 1)%2 == 0})
	r.srv.AuthFunc = func(ctx context.Context, req *protocol.Message, token string) error {
		r.mu.Lock()
		q := r.reqs[int(req.Seq())]
		r.mu.Unlock()
		if q.kind == "a" {
			return errors.New("authentication failed")
		}
		return nil
	}
	r.srv.RegisterName("Sd", &SdSvc{rig: r}, "")
	verifhook.Set(func(point string, arg interface{}) {
		if point == "server.process.enter" && !r.pool {
			if m, ok := arg.(*protocol.Message); ok {
				r.g.arrive("g2:" + strconv.Itoa(int(m.Seq())))
			}
		}
	})
	go func() { r.serveDone <- r.srv.ServeListener("vpipe", r.ln) }()
	select {
	case <-r.srv.Started:
	case <-time.After(2 * time.Second):
	}
	return r
}

// a registry plugin; in every other rig the registry is unreachable when the server shuts down
type sdRegistry struct{ down bool }

var sdRigCount int64

func (p *sdRegistry) Register(name string, rcvr interface{}, metadata string) error { return nil }
func (p *sdRegistry) Unregister(name string) error {
	if p.down {
		return errors.New("registry unreachable: cannot unregister " + name)
	}
	return nil
}

func (r *sdRig) waitPre(c int, atLeast int, d time.Duration) bool {
	deadline := time.Now().Add(d)
	r.mu.Lock()
	defer r.mu.Unlock()
	for r.preCount[c] < atLeast {
		if time.Now().After(deadline) {
			return false
		}
		r.mu.Unlock()
		time.Sleep(200 * time.Microsecond)
		r.mu.Lock()
	}
	return true
}
func (r *sdRig) pre(c int) int { r.mu.Lock(); defer r.mu.Unlock(); return r.preCount[c] }

func (r *sdRig) waitCountBelow(n int32, d time.Duration) bool {
	deadline := time.Now().Add(d)
	for r.srv.VerifHandlerMsgNum() >= n {
		if time.Now().After(deadline) {
			return false
		}
		time.Sleep(200 * time.Microsecond)
	}
	return true
}

// ---------- schedule ----------
type sdAction struct {
	op  string // conn serve send dispatch enter finish write exit shutdown deadline close peerclose
	arg int
}

func (a sdAction) String() string { return a.op + strconv.Itoa(a.arg) }

type sdCase struct {
	pool  bool
	reqs  []sdReq
	conns int
	ks    []int
	acts  []sdAction
}

func (c sdCase) enc() string {
	var rs, as []string
	for _, q := range c.reqs {
		rs = append(rs, fmt.Sprintf("%d:%d:%s:%s", q.id, q.conn, q.kind, b01(q.ow)))
	}
	for _, a := range c.acts {
		as = append(as, a.String())
	}
	return fmt.Sprintf("sd|%v|%s|%d|%s", c.pool, strings.Join(rs, ","), c.conns, strings.Join(as, ","))
}

func b01(b bool) string {
	if b {
		return "1"
	}
	return "0"
}

func decSdCase(s string) sdCase {
	p := strings.Split(s, "|")
	c := sdCase{pool: p[1] == "true"}
	for _, e := range strings.Split(p[2], ",") {
		if e == "" {
			continue
		}
		f := strings.Split(e, ":")
		id, _ := strconv.Atoi(f[0])
		cn, _ := strconv.Atoi(f[1])
		c.reqs = append(c.reqs, sdReq{id: id, conn: cn, kind: f[2], ow: f[3] == "1"})
	}
	c.conns, _ = strconv.Atoi(p[3])
	seenK := map[int]bool{}
	for _, e := range strings.Split(p[4], ",") {
		if e == "" {
			continue
		}
		i := 0
		for i < len(e) && (e[i] < '0' || e[i] > '9') {
			i++
		}
		n, _ := strconv.Atoi(e[i:])
		c.acts = append(c.acts, sdAction{op: e[:i], arg: n})
		if (e[:i] == "shutdown" || e[:i] == "deadline") && !seenK[n] {
			seenK[n] = true
			c.ks = append(c.ks, n)
		}
	}
	return c
}

// the model events an action attempts (static: depends on the request's kind only), followed by the
// settle events: polls of every Shutdown call, readers noticing closed connections, the serve loop
func (c sdCase) events(a sdAction) []string {
	var ev []string
	add := func(f string, n int) { ev = append(ev, f+strconv.Itoa(n)) }
	var q sdReq
	for _, x := range c.reqs {
		if x.id == a.arg {
			q = x
		}
	}
	switch a.op {
	case "conn":
		add("ac", a.arg)
	case "serve":
		add("sv", a.arg)
		add("tp", a.arg)
	case "send":
		add("ar", a.arg)
		add("rd", a.arg)
	case "dispatch":
		add("di", a.arg)
		switch q.kind {
		case "n", "h":
			add("tp", q.conn)
		case "l":
			if q.ow {
				add("wr", a.arg)
				add("ex", a.arg)
				add("tp", q.conn)
			}
		case "a":
			if q.ow {
				add("wr", a.arg)
				add("ex", a.arg)
			}
		}
	case "enter":
		add("en", a.arg)
		add("st", a.arg)
	case "finish":
		add("fi", a.arg)
		if q.ow {
			add("wr", a.arg)
			add("ex", a.arg)
		}
	case "write":
		add("wr", a.arg)
		if q.kind == "h" {
			add("ex", a.arg)
		}
	case "exit":
		add("ex", a.arg)
		if q.kind == "l" {
			add("tp", q.conn)
		}
	case "shutdown":
		add("sb", a.arg)
	case "deadline":
		add("dl", a.arg)
	case "close":
		ev = append(ev, "cl")
	case "peerclose":
		add("pc", a.arg)
	}
	for _, k := range c.ks {
		add("po", k)
		add("cc", k)
	}
	for i := 0; i < c.conns; i++ {
		add("re", i)
		add("wd", i)
	}
	ev = append(ev, "ae", "sr")
	return ev
}

func (c sdCase) modelLine() string {
	var t []string
	for _, q := range c.reqs {
		t = append(t, fmt.Sprintf("R:%d:%d:%s:%s", q.id, q.conn, q.kind, b01(q.ow)))
	}
	for _, k := range c.ks {
		t = append(t, fmt.Sprintf("K:%d", k))
	}
	for i := 0; i < c.conns; i++ {
		t = append(t, fmt.Sprintf("C:%d", i))
	}
	for _, a := range c.acts {
		t = append(t, fmt.Sprintf("A:%s:%s", a.String(), strings.Join(c.events(a), ",")))
	}
	return strings.Join(t, " ")
}

const sdLong = 2 * time.Second

var sdDebug = os.Getenv("SD_DEBUG") != ""

// run one schedule on the real server
func sdRunCase(o *common.Out, id string, c sdCase) {
	t0 := time.Now()
	defer func() {
		if d := time.Since(t0); d > 500*time.Millisecond {
			o.Count("slow-case")
			if sdDebug {
				fmt.Println("slow", id, d, c.enc())
			}
		}
	}()
	line := c.enc()
	o.Begin(id, line)
	prevPoll := server.VerifSetShutdownPollInterval(time.Millisecond)
	defer server.VerifSetShutdownPollInterval(prevPoll)
	rig := newSdRig(c.pool, c.reqs)
	byID := map[int]sdReq{}
	for _, q := range c.reqs {
		byID[q.id] = q
	}
	peers := map[int]*rawPeer{}
	refused := map[int]bool{}
	got := map[int]bool{} // responses received, by request id
	type shut struct {
		ret       chan error
		cancel    context.CancelFunc
		state     string // run nil err
		stepAt    int
		deadlined bool // the harness let this Shutdown's own deadline expire
		first     bool // the first Shutdown call: the one that runs the shutdown
	}
	shuts := map[int]*shut{}
	begun, closeCalled, completed := false, false, false
	expectClosed := map[int]bool{}
	readerAtRead := map[int]bool{} // the reader of this connection was seen entering its read (pre-read plugin) after its last request
	limbo := map[int]bool{}
	sentAfterCompletion := map[int]bool{}
	readBeforeShutdown := map[int]bool{}
	earlyClosed := map[int]bool{} // connections given up for a reason other than the shutdown
	var snaps []string
	var fails []string

	// a request of kind n (an ordinary call of the registered service) that is run to completion is answered with its
	// result - "running to completion" is not an error frame saying the service has gone
	wrongAnswer := map[int]string{}
	note := func(f *refcodec.Frame) {
		rid := int(binary.BigEndian.Uint64(f.Header[4:12]))
		got[rid] = true
		if q, ok := byID[rid]; ok && q.kind == "n" && f.Header[2]&0x03 == 1 {
			for _, kv := range f.Meta {
				if string(kv.K) == protocol.ServiceError {
					wrongAnswer[rid] = string(kv.V)
				}
			}
		}
	}
	drain := func() {
		for ci, p := range peers {
			_ = ci
			for {
				select {
				case f := <-p.frames:
					note(f)
					continue
				default:
				}
				break
			}
		}
	}
	waitFrame := func(conn, r int) {
		p := peers[conn]
		if p == nil {
			return
		}
		deadline := time.After(sdLong)
		for !got[r] {
			select {
			case f := <-p.frames:
				note(f)
			case <-p.closed:
				drain()
				return
			case <-deadline:
				return
			}
		}
	}
	pollShuts := func() {
		for _, s := range shuts {
			if s.state == "run" {
				select {
				case err := <-s.ret:
					if err == nil {
						s.state = "nil"
					} else {
						s.state = "err"
					}
					completed = completed || s.first
				default:
				}
			}
		}
	}
	// after an action: let every running Shutdown poll twice (or return)
	settle := func() {
		for _, s := range shuts {
			if s.state != "run" {
				continue
			}
			base := rig.log.count()
			deadline := time.Now().Add(sdLong)
			for rig.log.count() < base+2 && time.Now().Before(deadline) {
				select {
				case err := <-s.ret:
					if err == nil {
						s.state = "nil"
					} else {
						s.state = "err"
					}
					completed = completed || s.first
				default:
					time.Sleep(200 * time.Microsecond)
				}
				if s.state != "run" {
					break
				}
			}
			if s.state == "run" {
				// a poll that saw zero is followed by the return
				rig.log.mu.Lock()
				zero := false
				for _, n := range rig.log.polls[base:] {
					if n == 0 {
						zero = true
					}
				}
				rig.log.mu.Unlock()
				if zero {
					select {
					case err := <-s.ret:
						if err == nil {
							s.state = "nil"
						} else {
							s.state = "err"
						}
						completed = completed || s.first
					case <-time.After(sdLong):
					}
				}
			}
		}
	}
	level := func(r int) int {
		lv := 0
		for i := 1; i <= 5; i++ {
			if rig.g.isHit(fmt.Sprintf("g%d:%d", i, r)) {
				lv = i
			}
		}
		return lv
	}
	snapshot := func(label string) {
		drain()
		pollShuts()
		if (completed || closeCalled) && !rig.served {
			select {
			case err := <-rig.serveDone:
				rig.served, rig.serveErr = true, err
			case <-time.After(sdLong):
			}
		} else if !rig.served {
			select {
			case err := <-rig.serveDone:
				rig.served, rig.serveErr = true, err
			default:
			}
		}
		var g, d, s []string
		for _, q := range c.reqs {
			g = append(g, fmt.Sprintf("%d=%d", q.id, level(q.id)))
			if got[q.id] {
				d = append(d, strconv.Itoa(q.id))
			}
		}
		for _, k := range c.ks {
			st := "-"
			if sh := shuts[k]; sh != nil {
				st = sh.state
			}
			s = append(s, fmt.Sprintf("%d=%s", k, st))
		}
		v := "run"
		if rig.served {
			if errors.Is(rig.serveErr, server.ErrServerClosed) {
				v = "closed"
			} else {
				v = "err"
			}
		}
		snaps = append(snaps, fmt.Sprintf("%s:n=%d:g=%s:d=%s:s=%s:v=%s", label, rig.srv.VerifHandlerMsgNum(),
			strings.Join(g, ","), strings.Join(d, ","), strings.Join(s, ","), v))
	}

	for step, a := range c.acts {
		ta := time.Now()
		if sdDebug {
			defer func(a sdAction) {}(a)
		}
		q := byID[a.arg]
		key := func(n int) string { return fmt.Sprintf("g%d:%d", n, a.arg) }
		before := rig.srv.VerifHandlerMsgNum()
		switch a.op {
		case "conn":
			cn, err := rig.ln.dial()
			if err != nil {
				refused[a.arg] = true
				break
			}
			p := &rawPeer{conn: cn, frames: make(chan *refcodec.Frame, 256), closed: make(chan struct{})}
			go p.readLoop()
			peers[a.arg] = p
			rig.g.waitHit("g0:"+strconv.Itoa(a.arg), sdLong)
			limbo[a.arg] = true
		case "serve":
			if !rig.g.isHit("g0:" + strconv.Itoa(a.arg)) {
				break
			}
			n := rig.pre(a.arg)
			rig.g.release("g0:" + strconv.Itoa(a.arg))
			delete(limbo, a.arg)
			if begun {
				expectClosed[a.arg] = true
			} else {
				readerAtRead[a.arg] = rig.waitPre(a.arg, n+1, sdLong)
			}
		case "send":
			p := peers[a.arg]
			_ = p
			pc := peers[q.conn]
			if pc == nil {
				break
			}
			if completed {
				sentAfterCompletion[a.arg] = true
			}
			var h [12]byte
			h[0] = 8
			if q.kind == "h" {
				h[2] |= 0x40
			}
			if q.ow {
				h[2] |= 0x20
			}
			h[3] = 1 << 4
			binary.BigEndian.PutUint64(h[4:], uint64(q.id))
			frame := refcodec.Build(h, []byte("Sd"), []byte("Mul"), nil, []byte(fmt.Sprintf(`{"Id":%d,"A":%d,"B":7}`, q.id, q.id)))
			// a reader known to stand in its read takes the frame as soon as it is scheduled: wait generously.
			// Otherwise (the reader went back to the top of its loop after Shutdown had begun: it should have
			// left) a frame that is not taken within 150 ms counts as not read.
			wd := 150 * time.Millisecond
			if readerAtRead[q.conn] {
				wd = sdLong
			}
			pc.conn.SetWriteDeadline(time.Now().Add(wd))
			_, err := pc.conn.Write(frame)
			pc.conn.SetWriteDeadline(time.Time{})
			readerAtRead[q.conn] = false // it holds a request now (or is gone)
			if err == nil {
				if rig.g.waitHit(key(1), sdLong) && !begun {
					readBeforeShutdown[a.arg] = true
				}
			}
		case "dispatch":
			if !rig.g.isHit(key(1)) {
				break
			}
			n := rig.pre(q.conn)
			rig.g.release(key(1))
			switch {
			case q.kind == "n" || q.kind == "h":
				rig.g.waitHit(key(2), sdLong)
				if !begun {
					readerAtRead[q.conn] = rig.waitPre(q.conn, n+1, sdLong)
				}
			case q.kind == "j":
				rig.waitCountBelow(before, sdLong)
				if !begun {
					expectClosed[q.conn] = true
					earlyClosed[q.conn] = true
				}
			case q.ow: // rate-limited or unauthenticated one-way request: nothing is written
				rig.waitCountBelow(before, sdLong)
				if q.kind == "l" && !begun {
					readerAtRead[q.conn] = rig.waitPre(q.conn, n+1, sdLong)
				}
				if q.kind == "a" && !begun {
					expectClosed[q.conn] = true
					earlyClosed[q.conn] = true
				}
			default:
				rig.g.waitHit(key(4), sdLong)
			}
		case "enter":
			if !rig.g.isHit(key(2)) {
				break
			}
			rig.g.release(key(2))
			if q.kind == "h" {
				rig.g.waitHit(key(4), sdLong)
			} else {
				rig.g.waitHit(key(3), sdLong)
			}
		case "finish":
			if !rig.g.isHit(key(3)) {
				break
			}
			rig.g.release(key(3))
			if q.ow {
				rig.waitCountBelow(before, sdLong)
			} else {
				rig.g.waitHit(key(4), sdLong)
			}
		case "write":
			if !rig.g.isHit(key(4)) {
				break
			}
			rig.g.release(key(4))
			select {
			case err := <-rig.writeRes[a.arg]:
				if err == nil {
					waitFrame(q.conn, a.arg)
				}
			case <-time.After(sdLong):
			}
			if q.kind == "h" {
				rig.waitCountBelow(before, sdLong)
			} else {
				rig.g.waitHit(key(5), sdLong)
			}
		case "exit":
			if !rig.g.isHit(key(5)) {
				break
			}
			n := rig.pre(q.conn)
			rig.g.release(key(5))
			rig.waitCountBelow(before, sdLong)
			if q.kind == "l" && !begun {
				readerAtRead[q.conn] = rig.waitPre(q.conn, n+1, sdLong)
			}
			if q.kind == "a" && !begun {
				expectClosed[q.conn] = true
				earlyClosed[q.conn] = true
			}
		case "shutdown":
			if shuts[a.arg] != nil {
				break
			}
			ctx, cancel := context.WithCancel(context.Background())
			s := &shut{ret: make(chan error, 1), cancel: cancel, state: "run", stepAt: step, first: !begun}
			shuts[a.arg] = s
			base := rig.log.count()
			go func() { s.ret <- rig.srv.Shutdown(ctx) }()
			if begun {
				// another Shutdown is running or has run: this call has nothing to do and returns
				select {
				case err := <-s.ret:
					if err == nil {
						s.state = "nil"
					} else {
						s.state = "err"
					}
				case <-time.After(sdLong):
				}
			} else {
				// the first poll of the wait loop (or the return, whichever comes first)
				deadline := time.Now().Add(sdLong)
				for rig.log.count() == base && time.Now().Before(deadline) && s.state == "run" {
					select {
					case err := <-s.ret:
						if err == nil {
							s.state = "nil"
						} else {
							s.state = "err"
						}
						completed = true
					default:
						time.Sleep(100 * time.Microsecond)
					}
				}
			}
			begun = true
		case "deadline":
			if s := shuts[a.arg]; s != nil && s.state == "run" {
				s.deadlined = true
				s.cancel()
				select {
				case err := <-s.ret:
					if err == nil {
						s.state = "nil"
					} else {
						s.state = "err"
					}
					completed = completed || s.first
				case <-time.After(sdLong):
				}
			}
		case "close":
			rig.srv.Close()
			closeCalled = true
		case "peerclose":
			if p := peers[a.arg]; p != nil {
				p.conn.Close()
				expectClosed[a.arg] = true
				earlyClosed[a.arg] = true
			}
		}
		settle()
		// property oracle (independent of the model): when a Shutdown returns - with nil, or with an error although its
		// own deadline did not expire - every request read before Shutdown was called has been answered on a
		// connection nobody else closed
		for k, s := range shuts {
			if (s.state == "nil" || (s.state == "err" && !s.deadlined)) && s.stepAt >= 0 {
				first := true
				for k2, s2 := range shuts {
					if k2 != k && s2.stepAt < s.stepAt {
						first = false
					}
				}
				if first && !closeCalled {
					drain()
					for _, rq := range c.reqs {
						if readBeforeShutdown[rq.id] && rq.writes() && !earlyClosed[rq.conn] && !got[rq.id] {
							fails = append(fails, fmt.Sprintf("read-not-drained: Shutdown returned (%s, its deadline had not expired) but request %d (kind %s), read before Shutdown was called, got no response", s.state, rq.id, rq.kind))
						}
					}
				}
				s.stepAt = -1
			}
		}
		snapshot(a.String())
		if sdDebug && time.Since(ta) > 300*time.Millisecond {
			fmt.Println("  slow action", a.String(), time.Since(ta))
		}
	}
	for rid, text := range wrongAnswer {
		fails = append(fails, fmt.Sprintf("read-not-drained: request %d, an ordinary call that the server had read, was not run: it was answered with the error %q", rid, text))
	}
	// final observations
	rig.mu.Lock()
	started := append([]int(nil), rig.started...)
	rig.mu.Unlock()
	for _, r := range started {
		if sentAfterCompletion[r] {
			fails = append(fails, fmt.Sprintf("handler-after-shutdown: request %d was sent after Shutdown had returned and its handler started", r))
		}
	}
	if rig.served && !closeCalled && !errors.Is(rig.serveErr, server.ErrServerClosed) {
		fails = append(fails, fmt.Sprintf("serve-error: Serve returned %v after a graceful shutdown", rig.serveErr))
	}
	var conns []string
	for i := 0; i < c.conns; i++ {
		st := "o"
		p := peers[i]
		switch {
		case refused[i] || p == nil:
			st = "r"
		default:
			expect := expectClosed[i] || ((completed || closeCalled) && !limbo[i])
			if expect {
				select {
				case <-p.closed:
					st = "c"
				case <-time.After(sdLong):
				}
			} else {
				select {
				case <-p.closed:
					st = "c"
				default:
				}
			}
		}
		conns = append(conns, fmt.Sprintf("%d=%s", i, st))
	}
	var ss []string
	for _, r := range started {
		ss = append(ss, strconv.Itoa(r))
	}
	closes := 0
	if completed || closeCalled {
		closes = 1
	}
	obs := strings.Join(snaps, " | ") + fmt.Sprintf(" | conns=%s:started=%s:closes=%d", strings.Join(conns, ","), strings.Join(ss, ","), closes)
	// clean up: let every parked goroutine go, stop the server
	rig.g.kill()
	for _, s := range shuts {
		s.cancel()
	}
	rig.srv.Close()
	rig.ln.Close()
	for _, p := range peers {
		p.conn.Close()
	}
	verifhook.Set(nil)
	nontrivial := begun && len(c.reqs) > 0
	o.Case(id, c.modelLine(), obs, nontrivial)
	sort.Strings(fails)
	for _, f := range fails {
		sig := f[:strings.Index(f, ":")]
		o.Fail(id, sig, f, line)
	}
	o.Count(fmt.Sprintf("pool=%v", c.pool))
	o.Count(fmt.Sprintf("requests=%d", len(c.reqs)))
	for _, q := range c.reqs {
		o.Count("kind=" + q.kind + map[bool]string{true: "-oneway", false: ""}[q.ow])
	}
	for _, a := range c.acts {
		if a.op == "shutdown" || a.op == "close" || a.op == "deadline" || a.op == "peerclose" {
			o.Count("action=" + a.op)
		}
	}
}

// the action that moves a request past its current gate, by kind
func sdPath(q sdReq) []string {
	switch {
	case q.kind == "n" && !q.ow:
		return []string{"send", "dispatch", "enter", "finish", "write", "exit"}
	case q.kind == "n" && q.ow:
		return []string{"send", "dispatch", "enter", "finish"}
	case q.kind == "h":
		return []string{"send", "dispatch", "enter", "write"}
	case (q.kind == "l" || q.kind == "a") && !q.ow:
		return []string{"send", "dispatch", "write", "exit"}
	default:
		return []string{"send", "dispatch"}
	}
}

// is the reader of the request's connection busy with it after [pos] steps of its path?
func sdHolds(q sdReq, pos int) bool {
	p := sdPath(q)
	if pos == 0 || pos >= len(p) {
		return false
	}
	if q.kind == "n" || q.kind == "h" {
		return pos == 1
	}
	return true
}

func genSdCase(r *common.Rand, pool bool) sdCase {
	c := sdCase{pool: pool}
	c.conns = 1 + r.Intn(2)
	nreq := 1 + r.Intn(4)
	kinds := []string{"n", "n", "n", "n", "h", "l", "a", "j"}
	for i := 0; i < nreq; i++ {
		q := sdReq{id: i + 1, conn: r.Intn(c.conns), kind: kinds[r.Intn(len(kinds))], ow: r.Chance(20)}
		c.reqs = append(c.reqs, q)
	}
	extraConn := -1
	if r.Chance(40) {
		extraConn = c.conns
		c.conns++
	}
	for i := 0; i < c.conns; i++ {
		if i == extraConn {
			continue
		}
		c.acts = append(c.acts, sdAction{"conn", i}, sdAction{"serve", i})
	}
	pos := make([]int, nreq)
	budget := 0
	for _, q := range c.reqs {
		budget += len(sdPath(q))
	}
	shutAt := r.Intn(budget + 1)
	nshut := 0
	special := func() {
		k := 7 + nshut
		c.acts = append(c.acts, sdAction{"shutdown", k})
		c.ks = append(c.ks, k)
		nshut++
	}
	connOpenForSend := func(q sdReq) bool {
		for j, x := range c.reqs {
			if x.conn == q.conn && sdHolds(x, pos[j]) {
				return false
			}
		}
		return true
	}
	stepsDone := 0
	extraDone := false
	for iter := 0; iter < 200; iter++ {
		if stepsDone == shutAt && nshut == 0 {
			special()
		}
		// occasionally, once a shutdown is under way: a second Shutdown, Close, a deadline, a late connection
		if nshut > 0 && r.Chance(12) {
			switch r.Intn(5) {
			case 0:
				special()
			case 1:
				c.acts = append(c.acts, sdAction{"close", 0})
			case 2:
				c.acts = append(c.acts, sdAction{"deadline", c.ks[0]})
			case 3:
				if extraConn >= 0 && !extraDone {
					c.acts = append(c.acts, sdAction{"conn", extraConn}, sdAction{"serve", extraConn})
					extraDone = true
				}
			case 4:
				c.acts = append(c.acts, sdAction{"peerclose", r.Intn(c.conns)})
			}
		}
		var cand []int
		for i, q := range c.reqs {
			if pos[i] >= len(sdPath(q)) {
				continue
			}
			if pos[i] == 0 && !connOpenForSend(q) {
				continue
			}
			cand = append(cand, i)
		}
		if len(cand) == 0 {
			break
		}
		i := cand[r.Intn(len(cand))]
		q := c.reqs[i]
		c.acts = append(c.acts, sdAction{sdPath(q)[pos[i]], q.id})
		pos[i]++
		stepsDone++
	}
	if nshut == 0 {
		special()
	}
	if extraConn >= 0 && !extraDone {
		c.acts = append(c.acts, sdAction{"conn", extraConn}, sdAction{"serve", extraConn})
	}
	return c
}

// sdGateway: the HTTP ingresses of a server listening on TCP.  A keep-alive gateway connection serves one request,
// Shutdown runs to completion, the serve loop returns; a second request on the same connection (and one on a new
// connection) must start no handler.  Oracle only.  case: gw|<DisableJSONRPC>|<DisableHTTPGateway>
func sdGateway(o *common.Out, id string, noJSONRPC, noGateway bool) {
	abstract := fmt.Sprintf("gw|%v|%v", noJSONRPC, noGateway)
	o.Begin(id, abstract)
	o.Count("http-ingress-after-shutdown")
	h := newHandlerEnv(false)
	s := server.NewServer()
	s.DisableJSONRPC, s.DisableHTTPGateway = noJSONRPC, noGateway
	s.RegisterName("Arith", &Arith{h: h}, "")
	ln, err := net.Listen("tcp", "127.0.0.1:0")
	if err != nil {
		o.Fail(id, "rig", err.Error(), abstract)
		return
	}
	served := make(chan error, 1)
	go func() { served <- s.ServeListener("tcp", ln) }()
	select {
	case <-s.Started:
	case <-time.After(2 * time.Second):
	}
	time.Sleep(5 * time.Millisecond) // the HTTP front ends start in their own goroutines
	addr := ln.Addr().String()
	started := func() int { h.mu.Lock(); defer h.mu.Unlock(); return len(h.invoked) }
	drain := func() {
		for len(h.entered) > 0 {
			<-h.entered
		}
		for len(h.finished) > 0 {
			<-h.finished
		}
	}
	// one gateway request over a raw keep-alive connection; status 0: no answer
	post := func(c net.Conn, rid int) int {
		body := fmt.Sprintf(`{"Id":%d,"A":6,"B":7,"Mode":"ok"}`, rid)
		req := fmt.Sprintf("POST / HTTP/1.1\r\nHost: x\r\nContent-Length: %d\r\nX-RPCX-MessageID: %d\r\nX-RPCX-MessageType: 0\r\nX-RPCX-SerializeType: 1\r\nX-RPCX-ServicePath: Arith\r\nX-RPCX-ServiceMethod: Mul\r\n\r\n%s", len(body), rid, body)
		c.SetDeadline(time.Now().Add(time.Second))
		if _, err := c.Write([]byte(req)); err != nil {
			return 0
		}
		resp, err := http.ReadResponse(bufio.NewReader(c), nil)
		if err != nil {
			return 0
		}
		io.Copy(io.Discard, resp.Body)
		resp.Body.Close()
		return resp.StatusCode
	}
	var kc net.Conn
	if !noGateway {
		kc, err = net.Dial("tcp", addr)
		if err != nil {
			o.Fail(id, "rig", err.Error(), abstract)
			return
		}
		defer kc.Close()
		if st := post(kc, 1); st != 200 || started() != 1 {
			o.Fail(id, "rig", fmt.Sprintf("the gateway request before Shutdown: status %d, %d handler starts", st, started()), abstract)
			s.Close()
			return
		}
		drain()
	}
	before := started()
	sdDone := make(chan error, 1)
	go func() { sdDone <- s.Shutdown(context.Background()) }()
	select {
	case <-sdDone:
	case <-time.After(5 * time.Second):
		o.Fail(id, "shutdown-hangs", "Shutdown of an idle server with an open gateway connection did not return", abstract)
		return
	}
	select {
	case e := <-served:
		if e != server.ErrServerClosed {
			o.Fail(id, "serve-return", fmt.Sprintf("the serve loop returned %v", e), abstract)
		}
	case <-time.After(3 * time.Second):
		o.Fail(id, "serve-return", "the serve loop did not return after Shutdown", abstract)
	}
	if kc != nil {
		if st := post(kc, 2); st == 200 || started() != before {
			o.Fail(id, "handler-after-shutdown", fmt.Sprintf("a gateway request sent on a kept-alive connection after Shutdown had returned was answered with status %d; handler starts %d -> %d", st, before, started()), abstract)
		}
	}
	if nc, err := net.DialTimeout("tcp", addr, 200*time.Millisecond); err == nil {
		st := post(nc, 3)
		nc.Close()
		if st == 200 || started() != before {
			o.Fail(id, "handler-after-shutdown", fmt.Sprintf("a gateway request on a connection opened after Shutdown had returned was answered with status %d", st), abstract)
		}
	}
	o.ImplOnly(id, abstract, true)
}

// a PostConnClose plugin whose first call parks until released
type parkClosePlugin struct {
	once    sync.Once
	entered chan struct{}
	release chan struct{}
}

func (p *parkClosePlugin) HandleConnClose(conn net.Conn) bool {
	first := false
	p.once.Do(func() { first = true })
	if first {
		close(p.entered)
		<-p.release
	}
	return true
}

// sdTogether: Shutdown and Close overlap while one of them stands inside a connection-close plugin: both return, nobody
// panics, the serve loop returns the server-closed error.  Oracle only.  case: together|<closeFirst>
func sdTogether(o *common.Out, id string, closeFirst bool) {
	abstract := fmt.Sprintf("together|%v", closeFirst)
	o.Begin(id, abstract)
	o.Count("shutdown-together-with-close")
	s := server.NewServer()
	pp := &parkClosePlugin{entered: make(chan struct{}), release: make(chan struct{})}
	s.Plugins.Add(pp)
	s.RegisterName("Arith", &Arith{h: newHandlerEnv(false)}, "")
	ln := newPipeListener()
	served := make(chan error, 1)
	go func() { served <- s.ServeListener("vpipe", ln) }()
	<-s.Started
	pc, err := ln.dial()
	if err != nil {
		o.Fail(id, "rig", err.Error(), abstract)
		return
	}
	defer pc.Close()
	// one heartbeat round trip: the connection is being served
	var h [12]byte
	h[0], h[2], h[3] = 8, 0x40, 1<<4
	pc.Write(refcodec.Build(h, nil, nil, nil, []byte("hb")))
	buf := make([]byte, 64)
	pc.SetReadDeadline(time.Now().Add(2 * time.Second))
	pc.Read(buf)
	pc.SetReadDeadline(time.Time{})
	call := func(what string, f func() error, out chan string) {
		go func() {
			defer func() {
				if r := recover(); r != nil {
					out <- fmt.Sprintf("%s panicked: %v", what, r)
				}
			}()
			f()
			out <- ""
		}()
	}
	a, b := make(chan string, 1), make(chan string, 1)
	firstName, secondName := "Shutdown", "Close"
	first := func() error { return s.Shutdown(context.Background()) }
	second := func() error { return s.Close() }
	if closeFirst {
		firstName, secondName = secondName, firstName
		first, second = second, first
	}
	call(firstName, first, a)
	select {
	case <-pp.entered:
	case <-time.After(3 * time.Second):
		close(pp.release)
		o.Fail(id, "rig", firstName+" never reached the connection-close plugin", abstract)
		return
	}
	call(secondName, second, b)
	select { // the second call runs as far as it can: to its end, or to the lock the first one holds
	case r := <-b:
		b <- r
	case <-time.After(40 * time.Millisecond):
	}
	close(pp.release)
	for _, w := range []struct {
		name string
		ch   chan string
	}{{firstName, a}, {secondName, b}} {
		select {
		case r := <-w.ch:
			if r != "" {
				o.Fail(id, "panic", r+" (running together with the other call)", abstract)
			}
		case <-time.After(5 * time.Second):
			o.Fail(id, "shutdown-hangs", w.name+" did not return", abstract)
		}
	}
	select {
	case e := <-served:
		// Shutdown first: the serve loop returns the server-closed error.  Close first: the listener is closed before
		// anybody has asked for a shutdown, and the serve loop may already have returned with the listener's own error
		// by the time Shutdown is called - it has returned, that is all there is to ask
		if e != server.ErrServerClosed && !closeFirst {
			o.Fail(id, "serve-return", fmt.Sprintf("the serve loop returned %v", e), abstract)
		}
	case <-time.After(3 * time.Second):
		o.Fail(id, "serve-return", "the serve loop did not return", abstract)
	}
	o.ImplOnly(id, abstract, true)
}

type SdPark struct {
	entered chan struct{}
	release chan struct{}
}

func (t *SdPark) Wait(ctx context.Context, a *SArgs, r *SReply) error {
	t.entered <- struct{}{}
	<-t.release
	r.Id, r.C = a.Id, a.A*a.B
	return nil
}

// sdOddFrames: before anything else the server receives k frames it cannot take as requests (what: a compression type
// nobody registered, a first byte that is not the protocol's) on connections of their own; later a
// request stands in its handler when Shutdown (without deadline) is called: Shutdown waits for it, its response is
// delivered, then Shutdown returns.  Oracle only.  case: odd|<what>|<k>
func sdOddFrames(o *common.Out, id string, what string, k int) {
	abstract := fmt.Sprintf("odd|%s|%d", what, k)
	o.Begin(id, abstract)
	o.Count("shutdown-after-odd-frames")
	prevPoll := server.VerifSetShutdownPollInterval(5 * time.Millisecond)
	defer server.VerifSetShutdownPollInterval(prevPoll)
	s := server.NewServer()
	park := &SdPark{entered: make(chan struct{}, 4), release: make(chan struct{})}
	s.RegisterName("Park", park, "")
	ln := newPipeListener()
	served := make(chan error, 1)
	go func() { served <- s.ServeListener("vpipe", ln) }()
	<-s.Started
	body, _ := json.Marshal(map[string]interface{}{"Id": 5, "A": 6, "B": 7})
	for i := 0; i < k; i++ {
		pc, err := ln.dial()
		if err != nil {
			o.Fail(id, "rig", err.Error(), abstract)
			return
		}
		var h [12]byte
		h[0], h[3] = 8, 1<<4
		binary.BigEndian.PutUint64(h[4:], uint64(900+i))
		fr := refcodec.Build(h, []byte("Park"), []byte("Wait"), nil, body)
		switch {
		case strings.HasPrefix(what, "ct"):
			ct, _ := strconv.Atoi(what[2:])
			fr[2] |= byte(ct&7) << 2
		case what == "magic":
			fr[0] = 9
		}
		pc.SetDeadline(time.Now().Add(300 * time.Millisecond))
		go pc.Write(fr)
		buf := make([]byte, 4096)
		for {
			if _, err := pc.Read(buf); err != nil {
				break
			}
		}
		pc.Close()
	}
	pc, err := ln.dial()
	if err != nil {
		o.Fail(id, "rig", err.Error(), abstract)
		return
	}
	defer pc.Close()
	var h [12]byte
	h[0], h[3] = 8, 1<<4
	binary.BigEndian.PutUint64(h[4:], 77)
	go pc.Write(refcodec.Build(h, []byte("Park"), []byte("Wait"), nil, body))
	select {
	case <-park.entered:
	case <-time.After(12 * time.Second):
		o.Fail(id, "rig", "the request never reached its handler", abstract)
		s.Close()
		return
	}
	done := make(chan error, 1)
	go func() { done <- s.Shutdown(context.Background()) }()
	early := false
	select {
	case <-done:
		early = true
	case <-time.After(150 * time.Millisecond):
	}
	close(park.release)
	got := false
	pc.SetReadDeadline(time.Now().Add(12 * time.Second))
	hdr := make([]byte, 16)
	if _, err := io.ReadFull(pc, hdr); err == nil {
		rest := make([]byte, binary.BigEndian.Uint32(hdr[12:]))
		if _, err := io.ReadFull(pc, rest); err == nil {
			if f, err := refcodec.Parse(append(hdr, rest...)); err == nil && binary.BigEndian.Uint64(f.Header[4:]) == 77 && f.Header[2]&0x03 == 0 {
				got = true
			}
		}
	}
	if early || !got {
		o.Fail(id, "read-not-drained", fmt.Sprintf("after %d frame(s) the server could not take (%s): Shutdown returned before the handler of a request read earlier had finished: %v; its response was delivered: %v", k, what, early, got), abstract)
	}
	if !early {
		select {
		case e := <-done:
			if e != nil {
				o.Fail(id, "shutdown-error", fmt.Sprintf("Shutdown without deadline returned %v", e), abstract)
			}
		case <-time.After(12 * time.Second):
			o.Fail(id, "shutdown-hangs", fmt.Sprintf("after %d frame(s) the server could not take (%s), Shutdown did not return although nothing was in progress", k, what), abstract)
			s.Close()
		}
	}
	select {
	case e := <-served:
		if e != server.ErrServerClosed {
			o.Fail(id, "serve-return", fmt.Sprintf("the serve loop returned %v", e), abstract)
		}
	case <-time.After(12 * time.Second):
		o.Fail(id, "serve-return", "the serve loop did not return", abstract)
	}
	o.ImplOnly(id, abstract, true)
}

func runShutdown(r *common.Rand, tier string, o *common.Out, replay string) {
	if strings.HasPrefix(replay, "odd|") {
		p := strings.Split(replay, "|")
		k, _ := strconv.Atoi(p[2])
		sdOddFrames(o, "replay", p[1], k)
		return
	}
	if replay == "" {
		for i, what := range []string{"ct2", "ct5", "ct7", "magic", "ct3", "ct6"} {
			sdOddFrames(o, fmt.Sprintf("odd%d", i), what, 1+i%2)
		}
	}
	if strings.HasPrefix(replay, "together|") {
		sdTogether(o, "replay", strings.HasSuffix(replay, "true"))
		return
	}
	if strings.HasPrefix(replay, "gw|") {
		p := strings.Split(replay, "|")
		sdGateway(o, "replay", p[1] == "true", p[2] == "true")
		return
	}
	if replay != "" {
		// once with a reachable registry, once with an unreachable one (the rigs alternate)
		sdRunCase(o, "replay", decSdCase(replay))
		sdRunCase(o, "replay-registry-down", decSdCase(replay))
		return
	}
	sdTogether(o, "tg0", false)
	sdTogether(o, "tg1", true)
	for gi, cfg := range [][2]bool{{false, false}, {true, false}, {false, true}, {true, true}} {
		sdGateway(o, fmt.Sprintf("gw%d", gi), cfg[0], cfg[1])
	}
	n := 0
	// systematic part: one request of every kind, Shutdown begun at every point of its path, both
	// dispatch modes; then the request is driven to its end and a late request / connection is tried
	for _, pool := range []bool{false, true} {
		for _, kind := range []string{"n", "h", "l", "a", "j"} {
			for _, ow := range []bool{false, true} {
				if ow && (kind == "h" || kind == "j") {
					continue
				}
				q := sdReq{id: 1, conn: 0, kind: kind, ow: ow}
				late := sdReq{id: 2, conn: 0, kind: "n"}
				path := sdPath(q)
				for at := 0; at <= len(path); at++ {
					for variant := 0; variant < 3; variant++ {
						c := sdCase{pool: pool, reqs: []sdReq{q, late}, conns: 2, ks: []int{7}}
						c.acts = append(c.acts, sdAction{"conn", 0}, sdAction{"serve", 0})
						for i, op := range path {
							if i == at {
								c.acts = append(c.acts, sdAction{"shutdown", 7})
								if variant == 1 {
									c.acts = append(c.acts, sdAction{"shutdown", 8})
									c.ks = []int{7, 8}
								}
								if variant == 2 {
									c.acts = append(c.acts, sdAction{"conn", 1}, sdAction{"serve", 1})
								}
							}
							c.acts = append(c.acts, sdAction{op, 1})
						}
						if at == len(path) {
							c.acts = append(c.acts, sdAction{"shutdown", 7})
						}
						c.acts = append(c.acts, sdAction{"send", 2}, sdAction{"dispatch", 2}, sdAction{"enter", 2})
						if variant != 2 {
							c.acts = append(c.acts, sdAction{"conn", 1}, sdAction{"serve", 1})
						}
						sdRunCase(o, fmt.Sprintf("sys%d", n), c)
						n++
					}
				}
			}
		}
	}
	m := 120
	if tier == "thorough" {
		m = 3000
	}
	for i := 0; i < m; i++ {
		sdRunCase(o, fmt.Sprintf("rnd%d", i), genSdCase(r, i%3 == 2))
	}
}
