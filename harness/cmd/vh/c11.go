package main

import (
	"sync"
	"time"
	"context"
	"fmt"
	"math"
	"net/url"
	"sort"
	"strconv"
	"strings"

	"github.com/smallnest/rpcx/client"

	"verifharness/internal/common"
)

func init() { props["C11"] = runC11 }

var geoMetas = []string{"", "latitude=10&longitude=20", "latitude=10", "longitude=20", "latitude=abc&longitude=20",
	"latitude=NaN&longitude=20", "latitude=10&longitude=Inf", "latitude=-Inf&longitude=1", "latitude=1e308&longitude=-1e308",
	"latitude=90&longitude=180", "latitude=-90&longitude=0", "latitude=0&longitude=0", "latitude=10&longitude=20&latitude=99",
	"%zz", "latitude=&longitude=", "latitude=007&longitude=+5", "latitude=1e400&longitude=3", "latitude=-0&longitude=-0",
	"latitude=0x10&longitude=1", "latitude=45.5&longitude=-120.25"}

type selOp struct {
	update  bool
	servers [][2]string
	selects int
	key     string // consistent hash: args
}

func encOps(kind string, cfg string, ops []selOp) string {
	var sb strings.Builder
	sb.WriteString(kind + "|" + cfg)
	for _, op := range ops {
		sb.WriteByte('|')
		if op.update {
			sb.WriteString("U:")
			for i, s := range op.servers {
				if i > 0 {
					sb.WriteByte(',')
				}
				sb.WriteString(s[0] + "~" + url.QueryEscape(s[1]))
			}
		} else {
			fmt.Fprintf(&sb, "S:%d:%s", op.selects, url.QueryEscape(op.key))
		}
	}
	return sb.String()
}

func decOps(s string) (kind, cfg string, ops []selOp) {
	parts := strings.Split(s, "|")
	kind, cfg = parts[0], parts[1]
	for _, p := range parts[2:] {
		if strings.HasPrefix(p, "U:") {
			op := selOp{update: true}
			if body := p[2:]; body != "" {
				for _, e := range strings.Split(body, ",") {
					kv := strings.SplitN(e, "~", 2)
					m, _ := url.QueryUnescape(kv[1])
					op.servers = append(op.servers, [2]string{kv[0], m})
				}
			}
			ops = append(ops, op)
		} else {
			f := strings.SplitN(p[2:], ":", 2)
			n, _ := strconv.Atoi(f[0])
			k, _ := url.QueryUnescape(f[1])
			ops = append(ops, selOp{selects: n, key: k})
		}
	}
	return
}

func parseCoord(meta, name string) (string, float64) {
	v, err := url.ParseQuery(meta)
	if err != nil {
		return "M", 0
	}
	s := v.Get(name)
	if s == "" {
		return "M", 0
	}
	f, err := strconv.ParseFloat(s, 64)
	if err != nil {
		return "M", 0
	}
	if math.IsNaN(f) || math.IsInf(f, 0) {
		return "N", f
	}
	lim := 90.0
	if name == "longitude" {
		lim = 180
	}
	if f < -lim || f > lim {
		return "N", f // out of range: not a location
	}
	return "F", f
}

func safeSelect(sel client.Selector, path, method string, args interface{}) (res string, pan string) {
	defer func() {
		if e := recover(); e != nil {
			pan = fmt.Sprint(e)
		}
	}()
	return sel.Select(context.Background(), path, method, args), ""
}

func safeUpdate(sel client.Selector, m map[string]string) (pan string) {
	defer func() {
		if e := recover(); e != nil {
			pan = fmt.Sprint(e)
		}
	}()
	sel.UpdateServer(m)
	return ""
}

// eligible servers of the current set under the strategy (the harness's own reading of the property)
func eligibleSet(kind string, cur map[string]string) map[string]bool {
	out := map[string]bool{}
	for name, meta := range cur {
		switch kind {
		case "wrr":
			if effWeight(meta) > 0 {
				out[name] = true
			}
		case "geo":
			a, _ := parseCoord(meta, "latitude")
			b, _ := parseCoord(meta, "longitude")
			if a == "F" && b == "F" {
				out[name] = true
			}
		default:
			out[name] = true
		}
	}
	return out
}

func c11Run(o *common.Out, id, kind, cfg string, ops []selOp) {
	abstract := encOps(kind, cfg, ops)
	o.Begin(id, abstract)
	o.Count(kind)
	var sel client.Selector
	var model strings.Builder
	model.WriteString(kind)
	var obs []string
	var cur map[string]string
	lat0, lon0 := 0.0, 0.0
	if kind == "geo" {
		f := strings.Split(cfg, ",")
		lat0, _ = strconv.ParseFloat(f[0], 64)
		lon0, _ = strconv.ParseFloat(f[1], 64)
	}
	nsel := 0
	for _, op := range ops {
		if op.update {
			m := map[string]string{}
			for _, s := range op.servers {
				m[s[0]] = s[1]
			}
			cur = m
			var pan string
			func() {
				defer func() {
					if e := recover(); e != nil {
						pan = fmt.Sprint(e)
					}
				}()
				if sel == nil {
					switch kind {
					case "rnd":
						sel = client.VerifNewSelector(client.RandomSelect, m)
					case "rr":
						sel = client.VerifNewSelector(client.RoundRobin, m)
					case "wrr":
						sel = client.VerifNewSelector(client.WeightedRoundRobin, m)
					case "ch":
						sel = client.VerifNewSelector(client.ConsistentHash, m)
					case "geo":
						sel = client.VerifNewGeoSelector(m, lat0, lon0)
					}
				} else {
					sel.UpdateServer(m)
				}
			}()
			if pan != "" {
				o.Fail(id, "selector-panic", "constructor/UpdateServer panicked: "+pan, abstract)
				break
			}
			model.WriteString(" U:")
			switch kind {
			case "rnd", "rr":
				model.WriteString(strings.Join(client.VerifSelectorOrder(sel), ","))
			case "wrr":
				for i, name := range client.VerifSelectorOrder(sel) {
					if i > 0 {
						model.WriteByte(',')
					}
					if w, ok := parseWeight(m[name]); ok {
						fmt.Fprintf(&model, "%s=%d", name, w)
					} else {
						fmt.Fprintf(&model, "%s=x", name)
					}
				}
			case "ch":
				// the model gets the keys in the (sorted) order of the names; any order would do (C13 ii)
				names := make([]string, 0, len(m))
				for k := range m {
					names = append(names, k)
				}
				sort.Strings(names)
				// rotate so that the model's own sort is exercised
				if len(names) > 1 {
					names = append(names[1:], names[0])
				}
				model.WriteString(strings.Join(names, ","))
			case "geo":
				// every announced server with what ParseFloat made of its coordinates, in the order the
				// implementation kept the eligible ones (then the others)
				order := client.VerifSelectorOrder(sel)
				seen := map[string]bool{}
				var ents []string
				emit := func(name string) {
					a, la := parseCoord(m[name], "latitude")
					b, lo := parseCoord(m[name], "longitude")
					d := "-"
					if a == "F" && b == "F" {
						dist := client.VerifGeoDistance(lat0, lon0, la, lo)
						if math.IsNaN(dist) {
							d = "nan"
						} else {
							d = strconv.FormatUint(math.Float64bits(dist), 10)
						}
					}
					ents = append(ents, fmt.Sprintf("%s=%s%s%s", name, a, b, d))
				}
				for _, name := range order {
					seen[name] = true
					emit(name)
				}
				rest := []string{}
				for name := range m {
					if !seen[name] {
						rest = append(rest, name)
					}
				}
				sort.Strings(rest)
				for _, name := range rest {
					emit(name)
				}
				model.WriteString(strings.Join(ents, ","))
			}
			continue
		}
		if sel == nil {
			continue
		}
		elig := eligibleSet(kind, cur)
		for i := 0; i < op.selects; i++ {
			args := op.key
			if kind == "ch" {
				args = fmt.Sprintf("%s-%d", op.key, i)
			}
			r, pan := safeSelect(sel, "Arith", "Mul", args)
			nsel++
			if pan != "" {
				o.Fail(id, "selector-panic", "Select panicked: "+pan, abstract)
				obs = append(obs, "PANIC")
				break
			}
			// ---- property oracle ----
			if r == "" {
				if len(elig) > 0 {
					o.Fail(id, "empty-but-eligible", fmt.Sprintf("%s: empty result although %d server(s) are eligible", kind, len(elig)), abstract)
				}
			} else if !elig[r] {
				if _, ok := cur[r]; ok {
					o.Fail(id, "selected-ineligible", fmt.Sprintf("%s: selected %s which is not eligible (meta %q)", kind, r, cur[r]), abstract)
				} else {
					o.Fail(id, "selected-removed", fmt.Sprintf("%s: selected %s which is not in the last supplied set", kind, r), abstract)
				}
			}
			show := r
			if r == "" {
				show = "-"
			}
			obs = append(obs, show)
			switch kind {
			case "rr", "wrr":
				model.WriteString(" S")
			case "rnd", "geo":
				model.WriteString(" S:" + show)
			case "ch":
				model.WriteString(" K:" + hx([]byte("/Arith/Mul/"+args)))
			}
		}
	}
	o.Case(id, model.String(), strings.Join(obs, " "), nsel > 0 && len(cur) >= 1)
}

// how many trailing operations of ops are not updates
func lastSelects(ops []selOp) int {
	n := 0
	for i := len(ops) - 1; i >= 0 && !ops[i].update; i-- {
		n++
	}
	return n
}

func reannounce(r *common.Rand, kind string, prev [][2]string) [][2]string {
	out := make([][2]string, len(prev))
	copy(out, prev)
	if len(out) == 0 {
		return out
	}
	switch kind {
	case "wrr":
		if len(out) >= 2 && r.Bool() {
			// drain one server in favour of another: same addresses, same sum of weights
			i := r.Intn(len(out))
			j := (i + 1 + r.Intn(len(out)-1)) % len(out)
			wi, wj := effWeight(out[i][1]), effWeight(out[j][1])
			out[i][1] = fmt.Sprintf("weight=%d", wi+wj)
			out[j][1] = "weight=0"
		} else {
			// the weights change hands
			for i := len(out) - 1; i > 0; i-- {
				j := r.Intn(i + 1)
				out[i][1], out[j][1] = out[j][1], out[i][1]
			}
		}
	default:
		fresh := genServers(r, kind)
		for i := range out {
			if i < len(fresh) {
				out[i][1] = fresh[i][1]
			}
		}
	}
	return out
}

// c11Grouped: the selector as an XClient with Option.Group drives it: after every discovery update has been applied,
// selections come from the servers of the client's group in the NEWEST set (active ones), whatever the strategy.
// Oracle only.  case: grp|<mode>|<set>#<set>...   set = name=meta,name=meta
func c11Grouped(o *common.Out, id string, mode client.SelectMode, hist []snap) {
	var hs []string
	for _, sn := range hist {
		hs = append(hs, sn.enc())
	}
	abstract := fmt.Sprintf("grp|%d|%s", int(mode), strings.Join(hs, "#"))
	o.Begin(id, abstract)
	o.Count("xclient-with-group")
	d, _ := client.NewMultipleServersDiscovery(hist[0].pairs())
	opt := client.DefaultOption
	opt.Group = "g"
	xc := client.NewXClient("Svc", client.Failfast, mode, d, opt)
	defer xc.Close()
	md := d
	eligible := func(sn snap) map[string]bool {
		out := map[string]bool{}
		for name, meta := range client.VerifFilterByStateAndGroup("g", sn) {
			if mode == client.WeightedRoundRobin && effWeight(meta) <= 0 {
				continue
			}
			out[name] = true
		}
		return out
	}
	for i, sn := range hist {
		if i > 0 {
			md.Update(sn.pairs())
		}
		kept := client.VerifFilterByStateAndGroup("g", sn)
		if !waitServers(xc, mapKeys(kept), sn) {
			o.Fail(id, "update-not-applied", fmt.Sprintf("update %d was not applied within 2s", i), abstract)
			break
		}
		time.Sleep(300 * time.Microsecond) // the selector is updated right after the server map
		el := eligible(sn)
		for k := 0; k < 6; k++ {
			got := client.VerifXClientSelect(xc, "Svc", "M", fmt.Sprintf("k%d", k))
			if got == "" {
				if len(el) > 0 && mode != client.WeightedRoundRobin {
					o.Fail(id, "empty-from-nonempty", fmt.Sprintf("after update %d: nothing selected although %d servers of the group are announced", i, len(el)), abstract)
				}
				continue
			}
			if !el[got] {
				o.Fail(id, "stale-or-ineligible", fmt.Sprintf("after update %d (%s): selected %s, which is not an active server of group g in the newest set", i, sn.enc(), got), abstract)
				break
			}
		}
	}
	o.ImplOnly(id, abstract, len(hist) > 1)
}

// a real selector behind a gate: UpdateServer can be stalled (the watch loop then stands inside it, holding the
// client's lock) while the registry goes on publishing
type stallSel struct {
	inner   client.Selector
	mu      sync.Mutex
	gate    chan struct{}
	stalled chan struct{}
}

func (g *stallSel) Select(ctx context.Context, p, m string, a interface{}) string {
	return g.inner.Select(ctx, p, m, a)
}
func (g *stallSel) UpdateServer(servers map[string]string) {
	g.mu.Lock()
	gate := g.gate
	g.mu.Unlock()
	if gate != nil {
		select {
		case g.stalled <- struct{}{}:
		default:
		}
		<-gate
	}
	g.inner.UpdateServer(servers)
}

// c11Burst: n snapshots published while the watch loop is stalled applying the first of them (more than its channel
// holds when n > 11); once it runs again and the registry is quiet, selections come from the LAST published set -
// none when that set is empty.  Oracle only.  case: burst|<mode>|<n>|<lastEmpty>
func c11Burst(o *common.Out, id string, mode client.SelectMode, n int, lastEmpty bool) {
	abstract := fmt.Sprintf("burst|%d|%d|%v", int(mode), n, lastEmpty)
	o.Begin(id, abstract)
	o.Count("burst-while-the-watch-loop-is-stalled")
	first := snap{"vsrv@a": "", "vsrv@b": ""}
	d, _ := client.NewMultipleServersDiscovery(first.pairs())
	opt := client.DefaultOption
	xc := client.NewXClient("Svc", client.Failfast, client.SelectByUser, d, opt)
	defer xc.Close()
	gs := &stallSel{inner: client.VerifNewSelector(mode, first), stalled: make(chan struct{}, 1)}
	xc.SetSelector(gs)
	gs.mu.Lock()
	gs.gate = make(chan struct{})
	gs.mu.Unlock()
	var last snap
	for k := 1; k <= n; k++ {
		last = snap{fmt.Sprintf("vsrv@s%d", k%3): "", fmt.Sprintf("vsrv@t%d", k): ""}
		if k == n && lastEmpty {
			last = snap{}
		}
		d.Update(last.pairs())
		if k == 1 {
			select {
			case <-gs.stalled:
			case <-time.After(2 * time.Second):
				o.Fail(id, "rig", "the watch loop never reached the selector", abstract)
				return
			}
		}
	}
	gs.mu.Lock()
	close(gs.gate)
	gs.gate = nil
	gs.mu.Unlock()
	if !waitServers(xc, mapKeys(last), last) {
		o.Fail(id, "stale-set", fmt.Sprintf("%d updates were published while the watch loop was busy; afterwards the client holds %v, the last published set is %v",
			n, mapKeys(client.VerifXClientServers(xc)), mapKeys(last)), abstract)
	} else {
		time.Sleep(300 * time.Microsecond)
		for k := 0; k < 6; k++ {
			got := client.VerifXClientSelect(xc, "Svc", "M", fmt.Sprintf("k%d", k))
			if _, ok := last[got]; got != "" && !ok {
				o.Fail(id, "stale-or-ineligible", fmt.Sprintf("after a burst of %d updates: selected %s, which is not in the last published set %v", n, got, mapKeys(last)), abstract)
				break
			}
			if got == "" && len(last) > 0 {
				o.Fail(id, "empty-from-nonempty", fmt.Sprintf("after a burst of %d updates: nothing selected although the last published set is %v", n, mapKeys(last)), abstract)
				break
			}
		}
	}
	o.ImplOnly(id, abstract, true)
}

func genServers(r *common.Rand, kind string) [][2]string {
	n := r.Intn(9)
	if r.Chance(12) {
		n = 0
	}
	perm := r.Intn(16)
	var out [][2]string
	used := map[int]bool{}
	for i := 0; i < n; i++ {
		k := (perm + i*7 + r.Intn(3)) % 16
		if used[k] {
			continue
		}
		used[k] = true
		meta := ""
		switch kind {
		case "wrr":
			meta = weightMetas[r.Intn(len(weightMetas))]
			if effWeight(meta) > 50 {
				meta = "weight=7"
			}
		case "geo":
			meta = geoMetas[r.Intn(len(geoMetas))]
			if r.Chance(30) {
				meta = fmt.Sprintf("latitude=%g&longitude=%g", float64(r.Intn(181)-90), float64(r.Intn(361)-180))
			}
		default:
			if r.Chance(20) {
				meta = weightMetas[r.Intn(len(weightMetas))]
			}
		}
		out = append(out, [2]string{fmt.Sprintf("s%02d", k), meta})
	}
	return out
}

// c11Long: more than 2^31 selections on one selector with no update in between (a busy client over a few days): the
// rotating strategies keep returning members of the set and never crash, whatever counters they keep.  Thorough tier
// only (tens of seconds).  case: long|<mode>
func c11Long(o *common.Out, id string, mode client.SelectMode) {
	abstract := fmt.Sprintf("long|%d", int(mode))
	o.Begin(id, abstract)
	servers := map[string]string{"a": "weight=2", "b": "weight=1", "c": "weight=3"}
	sel := client.VerifNewSelector(mode, servers)
	total := uint64(1)<<31 + 1000
	bad := ""
	func() {
		defer func() {
			if e := recover(); e != nil {
				bad = fmt.Sprintf("the selector crashed after more than 2^31-1000 selections on an unchanged set: %v", e)
			}
		}()
		ctx := context.Background()
		for i := uint64(0); i < total; i++ {
			r := sel.Select(ctx, "p", "m", nil)
			if i > total-3000 {
				if _, ok := servers[r]; !ok {
					bad = fmt.Sprintf("selection number %d returned %q, not a member of the set", i+1, r)
					return
				}
			}
		}
	}()
	if bad != "" {
		o.Fail(id, "selector-panic", bad, abstract)
	}
	o.ImplOnly(id, abstract, true)
	o.Count("long-run")
}

func runC11(r *common.Rand, tier string, o *common.Out, replay string) {
	if strings.HasPrefix(replay, "long|") {
		var m int
		fmt.Sscanf(replay, "long|%d", &m)
		c11Long(o, "replay", client.SelectMode(m))
		return
	}
	if replay == "" && tier == "thorough" {
		c11Long(o, "long-wrr", client.WeightedRoundRobin)
		c11Long(o, "long-rr", client.RoundRobin)
	}
	if strings.HasPrefix(replay, "burst|") {
		p := strings.Split(replay, "|")
		m, _ := strconv.Atoi(p[1])
		n, _ := strconv.Atoi(p[2])
		c11Burst(o, "replay", client.SelectMode(m), n, p[3] == "true")
		return
	}
	if strings.HasPrefix(replay, "grp|") {
		p := strings.SplitN(replay, "|", 3)
		m, _ := strconv.Atoi(p[1])
		var hist []snap
		for _, e := range strings.Split(p[2], "#") {
			hist = append(hist, parseSnap(e))
		}
		c11Grouped(o, "replay", client.SelectMode(m), hist)
		return
	}
	if replay != "" {
		kind, cfg, ops := decOps(replay)
		c11Run(o, "replay", kind, cfg, ops)
		return
	}
	{
		// the client's group next to another group: servers of the group go inactive, move to the other group, leave
		// while the raw number of announcements stays what the client's view was, are replaced by foreign ones
		A, B, Z := "vsrv@a", "vsrv@b", "vsrv@z"
		hists := [][]snap{
			{{A: "group=g", B: "group=g"}, {A: "group=g", B: "group=g&state=inactive"}},
			{{A: "group=g", B: "group=g"}, {A: "group=g", B: "group=h"}},
			{{A: "group=g", B: "group=g", Z: "group=h"}, {A: "group=g", Z: "group=h"}},
			{{B: "group=g"}, {Z: "group=h"}},
			{{A: "group=g&weight=2", B: "group=g&weight=3", Z: "group=h"}, {A: "group=g&weight=2", Z: "group=h"}, {A: "group=g&weight=2", B: "group=g"}},
		}
		k := 0
		for mi, mode := range []client.SelectMode{client.RandomSelect, client.RoundRobin, client.WeightedRoundRobin, client.ConsistentHash} {
			for bi, n := range []int{3, 11, 12, 13, 16, 25} {
				c11Burst(o, fmt.Sprintf("burst%d-%d", mi, bi), mode, n, (mi+bi)%2 == 1)
			}
			for _, h := range hists {
				k++
				c11Grouped(o, fmt.Sprintf("grp%d", k), mode, h)
			}
		}
	}
	n := 2500
	if tier == "thorough" {
		n = 60000
	}
	kinds := []string{"rnd", "rr", "wrr", "ch", "geo"}
	for i := 0; i < n; i++ {
		kind := kinds[i%len(kinds)]
		cfg := "-"
		if kind == "geo" {
			lats := []float64{0, 10, 90, -90, 45.5, float64(r.Intn(181) - 90)}
			lons := []float64{0, 20, 180, -180, -120.25, float64(r.Intn(361) - 180)}
			cfg = fmt.Sprintf("%g,%g", lats[r.Intn(len(lats))], lons[r.Intn(len(lons))])
		}
		var ops []selOp
		steps := 1 + r.Intn(6)
		for s := 0; s < steps; s++ {
			srv := genServers(r, kind)
			if s > 0 && r.Chance(35) {
				// the same addresses announced again with other metadata: for the weighted strategy the weights move
				// between the servers (permuted, or one server drained in favour of another: the sum stays), for the
				// others the metadata changes in place
				prev := ops[len(ops)-1-lastSelects(ops)].servers
				srv = reannounce(r, kind, prev)
				o.Count("same-addresses-reannounced")
			}
			ops = append(ops, selOp{update: true, servers: srv})
			for k := 0; k < 1+r.Intn(2); k++ {
				ops = append(ops, selOp{selects: r.Intn(8), key: fmt.Sprintf("k%d", r.Intn(50))})
			}
		}
		c11Run(o, fmt.Sprintf("s%d", i), kind, cfg, ops)
	}
	// antipodal / extreme geometry for the closest strategy: distances that could round to NaN
	for i := 0; i < 400; i++ {
		la := float64(r.Intn(181) - 90)
		lo := float64(r.Intn(361) - 180)
		if r.Chance(30) {
			la, lo = float64(r.Intn(2000000)-1000000)/7, float64(r.Intn(2000000)-1000000)/3
		}
		srv := [][2]string{{"s01", fmt.Sprintf("latitude=%g&longitude=%g", -la, lo+180)}}
		if r.Bool() {
			srv = append(srv, [2]string{"s02", fmt.Sprintf("latitude=%g&longitude=%g", -la, lo-180)})
		}
		c11Run(o, fmt.Sprintf("g%d", i), "geo", fmt.Sprintf("%g,%g", la, lo), []selOp{{update: true, servers: srv}, {selects: 2}})
		o.Count("geo-antipodal")
	}
}
