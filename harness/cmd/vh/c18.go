package main

import (
	"context"
	"errors"
	"fmt"
	"net"
	"strconv"
	"strings"
	"sync"
	"sync/atomic"
	"time"

	"github.com/smallnest/rpcx/client"
	"github.com/smallnest/rpcx/protocol"

	"verifharness/internal/common"
)

func init() { props["C18"] = runC18 }

// one step of a breaker trace: sleep (in tenths of the window), then an operation
type brStep struct {
	sleepTenths int    // 0, 6 (0.6 w) or 15 (1.5 w)
	op          string // R, F, S, Cok, Cfail, Ctimeout
}

const brWindow = 200 * time.Millisecond

func brEncode(thr int, steps []brStep) string {
	parts := []string{"br", strconv.Itoa(thr)}
	for _, s := range steps {
		parts = append(parts, fmt.Sprintf("%d:%s", s.sleepTenths, s.op))
	}
	return strings.Join(parts, "|")
}

func brDecode(s string) (int, []brStep) {
	p := strings.Split(s, "|")
	thr, _ := strconv.Atoi(p[1])
	var steps []brStep
	for _, e := range p[2:] {
		f := strings.SplitN(e, ":", 2)
		n, _ := strconv.Atoi(f[0])
		steps = append(steps, brStep{n, f[1]})
	}
	return thr, steps
}

type brResult struct {
	model, obs, abstract string
	fails                []string
	nontrivial           bool
}

// independent reading of the property on the history (most recent last)
type specEv struct {
	kind string // fail, success, obs
	t    int64
}

func specOpen(thr int, hist []specEv, t int64) bool {
	// walk back to the last reset point: a success, or an observation made after the window elapsed
	fails := 0
	var lastTouch int64
	touched := false
	// forward replay of reset points is unavoidable for "elapsed-window observation"; do it plainly
	count := 0
	lastTouch = 0
	for _, e := range hist {
		switch e.kind {
		case "fail":
			count++
			lastTouch = e.t
			touched = true
		case "success":
			count = 0
			lastTouch = e.t
			touched = true
		case "obs":
			if !touched || e.t-lastTouch > int64(brWindow) {
				count = 0
				lastTouch = e.t
				touched = true
			}
		}
	}
	fails = count
	if !touched {
		return false
	}
	return fails >= thr && t-lastTouch <= int64(brWindow)
}

func brRun(thr int, steps []brStep) brResult {
	res := brResult{abstract: brEncode(thr, steps)}
	cb := client.NewConsecCircuitBreaker(uint64(thr), brWindow)
	var model []string
	var obs []string
	var hist []specEv
	model = append(model, "br", strconv.Itoa(thr), strconv.FormatInt(int64(brWindow), 10))
	// calls in flight (ops B<k> / E<k>ok / E<k>fail): a call that has been admitted and whose protected function
	// has not returned yet.  Being admitted is an observation; the outcome is reported when the function returns.
	type openCall struct {
		result chan error // the harness decides the outcome
		done   chan error // what Call returned
	}
	open := map[string]*openCall{}
	for i, s := range steps {
		if s.sleepTenths > 0 {
			time.Sleep(brWindow * time.Duration(s.sleepTenths) / 10)
			res.nontrivial = true
		}
		t := time.Now().UnixNano()
		switch s.op {
		case "R":
			open := specOpen(thr, hist, t)
			r := cb.Ready()
			model = append(model, fmt.Sprintf("R@%d", t))
			if r {
				obs = append(obs, "r1")
			} else {
				obs = append(obs, "r0")
			}
			if r == open {
				res.fails = append(res.fails, fmt.Sprintf("step %d: Ready()=%v but the trace says open=%v", i, r, open))
			}
			hist = append(hist, specEv{"obs", t})
		case "F":
			cb.Fail()
			model = append(model, fmt.Sprintf("F@%d", t))
			obs = append(obs, "-")
			hist = append(hist, specEv{"fail", t})
		case "S":
			cb.Success()
			model = append(model, fmt.Sprintf("S@%d", t))
			obs = append(obs, "-")
			hist = append(hist, specEv{"success", t})
		default:
			if s.op[0] == 'B' {
				isOpen := specOpen(thr, hist, t)
				oc := &openCall{result: make(chan error, 1), done: make(chan error, 1)}
				entered := make(chan struct{}, 1)
				go func() {
					oc.done <- cb.Call(func() error { entered <- struct{}{}; return <-oc.result }, 0)
				}()
				admitted := false
				select {
				case <-entered:
					admitted = true
					open[s.op[1:]] = oc
				case err := <-oc.done:
					if err != client.ErrBreakerOpen {
						res.fails = append(res.fails, fmt.Sprintf("step %d: refused call returned %v, want ErrBreakerOpen", i, err))
					}
				case <-time.After(3 * time.Second):
					res.fails = append(res.fails, fmt.Sprintf("step %d: Call neither ran its function nor returned", i))
				}
				model = append(model, fmt.Sprintf("R@%d", t))
				if admitted {
					obs = append(obs, "r1")
				} else {
					obs = append(obs, "r0")
				}
				if admitted == isOpen {
					res.fails = append(res.fails, fmt.Sprintf("step %d: protected function invoked=%v but the trace says open=%v", i, admitted, isOpen))
				}
				hist = append(hist, specEv{"obs", t})
				res.nontrivial = true
				continue
			}
			if s.op[0] == 'E' {
				k := strings.TrimSuffix(strings.TrimSuffix(s.op[1:], "ok"), "fail")
				oc := open[k]
				if oc == nil {
					continue // the call was refused: nothing ends
				}
				delete(open, k)
				if strings.HasSuffix(s.op, "ok") {
					oc.result <- nil
					<-oc.done
					model = append(model, fmt.Sprintf("S@%d", t))
					hist = append(hist, specEv{"success", t})
				} else {
					oc.result <- errors.New("boom")
					<-oc.done
					model = append(model, fmt.Sprintf("F@%d", t))
					hist = append(hist, specEv{"fail", t})
				}
				obs = append(obs, "-")
				continue
			}
			open := specOpen(thr, hist, t)
			var invoked int32
			var d time.Duration
			fn := func() error {
				atomic.AddInt32(&invoked, 1)
				switch s.op {
				case "Cok":
					return nil
				case "Cfail":
					return errors.New("boom")
				default:
					time.Sleep(30 * time.Millisecond)
					return nil
				}
			}
			if s.op == "Ctimeout" {
				d = 8 * time.Millisecond
			} else if i%2 == 1 {
				d = 2 * time.Second // a call timeout that never fires changes nothing: success and failure count as without it
			}
			err := cb.Call(fn, d)
			t2 := time.Now().UnixNano()
			ran := atomic.LoadInt32(&invoked) == 1
			ok := "fail"
			if s.op == "Cok" {
				ok = "ok"
			}
			model = append(model, fmt.Sprintf("C@%d:%s:%d", t, ok, t2))
			switch {
			case !ran && err == client.ErrBreakerOpen:
				obs = append(obs, "refused")
			case ran && err == nil:
				obs = append(obs, "inv-ok")
			case ran:
				obs = append(obs, "inv-fail")
			default:
				obs = append(obs, "refused-with-"+fmt.Sprint(err))
			}
			if ran == open {
				res.fails = append(res.fails, fmt.Sprintf("step %d: protected function invoked=%v but the trace says open=%v", i, ran, open))
			}
			if !ran && err != client.ErrBreakerOpen {
				res.fails = append(res.fails, fmt.Sprintf("step %d: refused call returned %v, want ErrBreakerOpen", i, err))
			}
			hist = append(hist, specEv{"obs", t})
			if ran {
				if s.op == "Cok" {
					hist = append(hist, specEv{"success", t2})
				} else {
					hist = append(hist, specEv{"fail", t2})
				}
			}
			if s.op == "Ctimeout" {
				time.Sleep(30 * time.Millisecond) // let the abandoned function finish
			}
		}
	}
	for _, oc := range open {
		oc.result <- nil
	}
	res.model = strings.Join(model, " ")
	res.obs = strings.Join(obs, " ")
	if len(steps) >= thr {
		res.nontrivial = true
	}
	return res
}

// ---------- xclient wiring ----------
var (
	vrefuseMu    sync.Mutex
	vrefuseDials = map[string]*int32{}
	vrefuseOK    = map[string]*int32{} // 1: accept the next dial
)

func init() {
	client.ConnFactories["vrefuse"] = func(c *client.Client, network, address string) (net.Conn, error) {
		vrefuseMu.Lock()
		cnt, ok := vrefuseDials[address], vrefuseOK[address]
		vrefuseMu.Unlock()
		if cnt != nil {
			atomic.AddInt32(cnt, 1)
		}
		if ok != nil && atomic.LoadInt32(ok) == 1 {
			a, b := net.Pipe()
			go func() { // a peer that hangs up at once
				b.Close()
			}()
			return a, nil
		}
		return nil, errors.New("connection refused (vrefuse)")
	}
}

func xbRun(id string, thr int, steps []brStep) brResult {
	res := brResult{abstract: "x" + brEncode(thr, steps)}
	addr := "xb-" + id
	var dials, accept int32
	vrefuseMu.Lock()
	vrefuseDials[addr] = &dials
	vrefuseOK[addr] = &accept
	vrefuseMu.Unlock()
	key := "vrefuse@" + addr
	if (len(steps)+thr)%2 == 0 {
		key = addr // a server key without a network means tcp (runC18 has put the same scripted dialer there)
	}
	d, _ := client.NewPeer2PeerDiscovery(key, "")
	opt := client.DefaultOption
	opt.Retries = 0
	opt.SerializeType = protocol.JSON
	opt.GenBreaker = func() client.Breaker { return client.NewConsecCircuitBreaker(uint64(thr), brWindow) }
	xc := client.NewXClient("Arith", client.Failfast, client.RandomSelect, d, opt)
	defer xc.Close()
	model := []string{"xb", strconv.Itoa(thr), strconv.FormatInt(int64(brWindow), 10)}
	var obs []string
	consecFails := 0
	var lastFail int64
	for i, s := range steps {
		if s.sleepTenths > 0 {
			time.Sleep(brWindow * time.Duration(s.sleepTenths) / 10)
		}
		okDial := s.op == "Cok"
		if okDial {
			atomic.StoreInt32(&accept, 1)
		} else {
			atomic.StoreInt32(&accept, 0)
		}
		before := atomic.LoadInt32(&dials)
		t := time.Now().UnixNano()
		var reply int
		ctx, cancel := context.WithTimeout(context.Background(), 2*time.Second)
		err := xc.Call(ctx, "Mul", 1, &reply)
		cancel()
		dialed := atomic.LoadInt32(&dials) - before
		okS := "fail"
		if okDial {
			okS = "ok"
		}
		model = append(model, fmt.Sprintf("%d:%s", t, okS))
		switch {
		case dialed == 0 && err == client.ErrBreakerOpen:
			obs = append(obs, "skip")
		case dialed == 1 && okDial:
			obs = append(obs, "dial-ok")
		case dialed == 1:
			obs = append(obs, "dial-fail")
		default:
			obs = append(obs, fmt.Sprintf("dials=%d err=%v", dialed, err))
		}
		// oracle: after thr consecutive refused dials, no dial until the window elapses
		// (an elapsed window clears the count, as it does for the breaker itself)
		if lastFail != 0 && t-lastFail > int64(brWindow) {
			consecFails = 0
		}
		if consecFails >= thr && t-lastFail <= int64(brWindow)*8/10 && dialed != 0 {
			res.fails = append(res.fails, fmt.Sprintf("step %d: %d consecutive connection failures, window not elapsed, yet the server was dialled again", i, consecFails))
		}
		if dialed == 1 && !okDial {
			consecFails++
			lastFail = time.Now().UnixNano()
		} else if dialed == 1 {
			consecFails = 0
		}
		if t-lastFail > int64(brWindow) && dialed == 0 && lastFail != 0 && err == client.ErrBreakerOpen {
			res.fails = append(res.fails, fmt.Sprintf("step %d: window elapsed since the last failure but the dial was still refused by the breaker", i))
		}
	}
	res.model = strings.Join(model, " ")
	res.obs = strings.Join(obs, " ")
	res.nontrivial = len(steps) > thr
	return res
}

// xbBurst: the very first connection attempts to a dead server come from several goroutines at once (thr of them, all
// refused): they are thr consecutive connection failures of that server, so the next attempt inside the window must
// not dial.  GenBreaker is slow, so that the first lookups overlap.  case: xburst|thr
func xbBurst(o *common.Out, id string, thr int) {
	abstract := fmt.Sprintf("xburst|%d", thr)
	o.Begin(id, abstract)
	addr := "xburst-" + id
	var dials, accept int32
	vrefuseMu.Lock()
	vrefuseDials[addr] = &dials
	vrefuseOK[addr] = &accept
	vrefuseMu.Unlock()
	d, _ := client.NewPeer2PeerDiscovery("vrefuse@"+addr, "")
	opt := client.DefaultOption
	opt.Retries = 0
	opt.SerializeType = protocol.JSON
	window := 2 * time.Second
	opt.GenBreaker = func() client.Breaker {
		time.Sleep(15 * time.Millisecond)
		return client.NewConsecCircuitBreaker(uint64(thr), window)
	}
	xc := client.NewXClient("Arith", client.Failfast, client.RandomSelect, d, opt)
	defer xc.Close()
	var wg sync.WaitGroup
	start := make(chan struct{})
	for i := 0; i < thr; i++ {
		wg.Add(1)
		go func() {
			defer wg.Done()
			<-start
			var reply int
			ctx, cancel := context.WithTimeout(context.Background(), 2*time.Second)
			xc.Call(ctx, "Mul", 1, &reply)
			cancel()
		}()
	}
	close(start)
	wg.Wait()
	refused := atomic.LoadInt32(&dials)
	var reply int
	ctx, cancel := context.WithTimeout(context.Background(), 2*time.Second)
	err := xc.Call(ctx, "Mul", 1, &reply)
	cancel()
	after := atomic.LoadInt32(&dials)
	if int(refused) >= thr && after != refused {
		o.Fail(id, "xclient-dial-trace", fmt.Sprintf("%d connection attempts (made at the same time) were refused, threshold %d, window not elapsed, yet the server was dialled again (err=%v)", refused, thr, err), abstract)
	}
	o.ImplOnly(id, abstract, int(refused) >= thr)
	o.Count("xclient-dial-burst")
}

// xbUpdate: the breaker of a dead server is open; the registry then republishes the server (new metadata, or dropped
// and announced again): that is neither a success nor an elapsed window - the server is still not dialled.
// case: xupd|thr|variant
func xbUpdate(o *common.Out, id string, thr int, variant string) {
	abstract := fmt.Sprintf("xupd|%d|%s", thr, variant)
	o.Begin(id, abstract)
	addr := "xupd-" + id
	var dials, accept int32
	vrefuseMu.Lock()
	vrefuseDials[addr] = &dials
	vrefuseOK[addr] = &accept
	vrefuseMu.Unlock()
	key := "vrefuse@" + addr
	d, _ := client.NewMultipleServersDiscovery([]*client.KVPair{{Key: key, Value: "v=1"}})
	opt := client.DefaultOption
	opt.Retries = 0
	opt.SerializeType = protocol.JSON
	opt.GenBreaker = func() client.Breaker { return client.NewConsecCircuitBreaker(uint64(thr), time.Hour) }
	xc := client.NewXClient("Arith", client.Failfast, client.RandomSelect, d, opt)
	defer xc.Close()
	call := func() error {
		var reply int
		ctx, cancel := context.WithTimeout(context.Background(), 2*time.Second)
		defer cancel()
		return xc.Call(ctx, "Mul", 1, &reply)
	}
	for i := 0; i < thr; i++ {
		call()
	}
	refused := atomic.LoadInt32(&dials)
	wait := func(val string, present bool) {
		deadline := time.Now().Add(2 * time.Second)
		for time.Now().Before(deadline) {
			v, ok := client.VerifXClientServers(xc)[key]
			if ok == present && (!present || v == val) {
				return
			}
			time.Sleep(200 * time.Microsecond)
		}
	}
	switch variant {
	case "metadata":
		d.Update([]*client.KVPair{{Key: key, Value: "v=2"}})
		wait("v=2", true)
	case "readd":
		d.Update([]*client.KVPair{{Key: "vrefuse@other-" + addr, Value: ""}})
		wait("", false)
		d.Update([]*client.KVPair{{Key: key, Value: "v=1"}})
		wait("v=1", true)
	case "same":
		d.Update([]*client.KVPair{{Key: key, Value: "v=1"}})
		time.Sleep(3 * time.Millisecond)
	}
	err := call()
	after := atomic.LoadInt32(&dials)
	if int(refused) >= thr && after != refused {
		o.Fail(id, "xclient-dial-trace", fmt.Sprintf("%d consecutive connection failures (threshold %d), window not elapsed; after the registry republished the server (%s) it was dialled again (err=%v)", refused, thr, variant, err), abstract)
	}
	o.ImplOnly(id, abstract, int(refused) >= thr)
	o.Count("xclient-dial-after-update")
}

func runC18(r *common.Rand, tier string, o *common.Out, replay string) {
	// nothing in this process dials real TCP: "tcp" leads to the scripted dialer too (before any client exists)
	client.ConnFactories["tcp"] = client.ConnFactories["vrefuse"]
	if strings.HasPrefix(replay, "xupd|") {
		p := strings.Split(replay, "|")
		thr, _ := strconv.Atoi(p[1])
		xbUpdate(o, "replay", thr, p[2])
		return
	}
	if replay == "" {
		k := 0
		for thr := 1; thr <= 3; thr++ {
			for _, v := range []string{"metadata", "readd", "same"} {
				k++
				xbUpdate(o, fmt.Sprintf("xupd%d", k), thr, v)
			}
		}
	}
	if strings.HasPrefix(replay, "xburst|") {
		thr, _ := strconv.Atoi(strings.Split(replay, "|")[1])
		xbBurst(o, "replay", thr)
		return
	}
	if replay == "" {
		for rep := 0; rep < 3; rep++ {
			for thr := 2; thr <= 4; thr++ {
				xbBurst(o, fmt.Sprintf("burst%d-%d", thr, rep), thr)
			}
		}
	}
	if replay != "" {
		var res brResult
		if strings.HasPrefix(replay, "xbr|") {
			thr, steps := brDecode(replay[1:])
			res = xbRun("replay", thr, steps)
		} else {
			thr, steps := brDecode(replay)
			res = brRun(thr, steps)
		}
		for _, f := range res.fails {
			o.Fail("replay", "breaker-trace", f, res.abstract)
		}
		o.Case("replay", res.model, res.obs, true)
		return
	}
	type job struct {
		id    string
		thr   int
		steps []brStep
		x     bool
	}
	var jobs []job
	ops := []string{"Cfail", "Cfail", "Cfail", "Cok", "R", "F", "S", "Cfail", "Ctimeout"}
	sleeps := []int{0, 0, 0, 6, 15}
	// exhaustive short traces of failing/succeeding calls without sleeps (pure counting logic)
	id := 0
	for thr := 1; thr <= 5; thr++ {
		maxLen := 5
		if tier == "thorough" {
			maxLen = 7
		}
		for l := 1; l <= maxLen; l++ {
			for mask := 0; mask < 1<<uint(l); mask++ {
				if tier != "thorough" && l > 4 && mask%3 != 0 {
					continue
				}
				var st []brStep
				for k := 0; k < l; k++ {
					op := "Cfail"
					if mask>>uint(k)&1 == 1 {
						op = "Cok"
					}
					st = append(st, brStep{0, op})
				}
				id++
				jobs = append(jobs, job{fmt.Sprintf("e%d", id), thr, st, false})
			}
		}
	}
	n := 260
	if tier == "thorough" {
		n = 3000
	}
	for i := 0; i < n; i++ {
		thr := 1 + r.Intn(5)
		l := 2 + r.Intn(6)
		var st []brStep
		for k := 0; k < l; k++ {
			st = append(st, brStep{sleeps[r.Intn(len(sleeps))], ops[r.Intn(len(ops))]})
		}
		jobs = append(jobs, job{fmt.Sprintf("t%d", i), thr, st, false})
	}
	// calls in flight at the same time: begun (admitted or refused), ended later with their outcome, in any order
	no := 120
	if tier == "thorough" {
		no = 2500
	}
	for i := 0; i < no; i++ {
		thr := 1 + r.Intn(3)
		var st []brStep
		var inflight []string
		next := 0
		for k := 0; k < 4+r.Intn(8); k++ {
			sl := []int{0, 0, 0, 0, 6, 15}[r.Intn(6)]
			switch {
			case len(inflight) < 3 && r.Chance(45):
				st = append(st, brStep{sl, fmt.Sprintf("B%d", next)})
				inflight = append(inflight, strconv.Itoa(next))
				next++
			case len(inflight) > 0 && r.Chance(70):
				j := r.Intn(len(inflight))
				res := "fail"
				if r.Chance(35) {
					res = "ok"
				}
				st = append(st, brStep{sl, "E" + inflight[j] + res})
				inflight = append(inflight[:j], inflight[j+1:]...)
			default:
				st = append(st, brStep{sl, []string{"R", "R", "Cfail", "Cok"}[r.Intn(4)]})
			}
		}
		for _, k := range inflight {
			st = append(st, brStep{0, "E" + k + "fail"})
		}
		st = append(st, brStep{0, "R"})
		jobs = append(jobs, job{fmt.Sprintf("o%d", i), thr, st, false})
	}
	nx := 60
	if tier == "thorough" {
		nx = 600
	}
	for i := 0; i < nx; i++ {
		thr := 1 + r.Intn(4)
		l := thr + 1 + r.Intn(4)
		var st []brStep
		for k := 0; k < l; k++ {
			op := "Cfail"
			if r.Chance(15) {
				op = "Cok"
			}
			st = append(st, brStep{sleeps[r.Intn(len(sleeps))], op})
		}
		jobs = append(jobs, job{fmt.Sprintf("x%d", i), thr, st, true})
	}
	// traces are independent (one breaker each): run them concurrently, the time is spent sleeping
	results := make([]brResult, len(jobs))
	sem := make(chan struct{}, 48)
	var wg sync.WaitGroup
	for i, j := range jobs {
		wg.Add(1)
		sem <- struct{}{}
		go func(i int, j job) {
			defer wg.Done()
			defer func() { <-sem }()
			if j.x {
				results[i] = xbRun(j.id, j.thr, j.steps)
			} else {
				results[i] = brRun(j.thr, j.steps)
			}
		}(i, j)
	}
	wg.Wait()
	for i, j := range jobs {
		res := results[i]
		o.Begin(j.id, res.abstract)
		kind := "breaker-trace"
		if j.x {
			kind = "xclient-dial-trace"
		}
		o.Count(kind)
		o.Count(fmt.Sprintf("threshold=%d", j.thr))
		for _, f := range res.fails {
			o.Fail(j.id, kind, f, res.abstract)
		}
		o.Case(j.id, res.model, res.obs, res.nontrivial)
	}
}
