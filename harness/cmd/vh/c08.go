package main

// C08: frames are never interleaved or torn on a shared connection.
//
// Every transport Write of the connection under test is held before it touches its bytes ("scheduling
// delays between, never inside, transport writes"): writers are started one at a time, so the k-th
// arrival at the gate is the k-th writer, and the writes are then let through in a chosen order,
// possibly with more writers started in between (so that later writers reuse the pooled buffers of
// earlier ones).  The peer reads the raw stream in random-sized pieces; an independent decoder
// (refcodec) parses it.  The frames each writer must produce are predicted by the harness from what it
// sent (independently of the library's encoder) and given to the model, which computes the stream for
// the same schedule of pool / transport operations.
//
// Oracle (independent of the model): every transport Write carries exactly one whole frame; the stream
// parses into whole frames; the frames are, in the order of the writes, the predicted ones.

import (
	"os"
	"bufio"
	"bytes"
	"context"
	"crypto/md5"
	"encoding/binary"
	"encoding/hex"
	"encoding/json"
	"errors"
	"fmt"
	"io"
	"net"
	"runtime"
	"strconv"
	"strings"
	"sync"
	"time"

	"github.com/smallnest/rpcx/client"
	"github.com/smallnest/rpcx/protocol"
	"github.com/smallnest/rpcx/server"
	"github.com/smallnest/rpcx/share"

	"verifharness/internal/common"
	"verifharness/internal/refcodec"
)

func init() { props["C08"] = runShared }

type deadWriteConn struct{ net.Conn }

func (deadWriteConn) Write(b []byte) (int, error) { return 0, errors.New("c08dead: the transport refuses the write") }

func init() {
	client.ConnFactories["c08dead"] = func(cl *client.Client, network, address string) (net.Conn, error) {
		a, b := net.Pipe()
		go func() { io.Copy(io.Discard, b) }()
		return deadWriteConn{a}, nil
	}
}

// ---------- the gate in front of the transport ----------
type wArr struct {
	buf     []byte
	rel     chan struct{}
	done    chan struct{}
	written []byte
	err     error
}
type wGate struct {
	mu   sync.Mutex
	arrs []*wArr
	dead bool
}

func (g *wGate) add(a *wArr) {
	g.mu.Lock()
	if g.dead {
		close(a.rel)
	}
	g.arrs = append(g.arrs, a)
	g.mu.Unlock()
}
func (g *wGate) count() int { g.mu.Lock(); defer g.mu.Unlock(); return len(g.arrs) }
func (g *wGate) get(i int) *wArr {
	g.mu.Lock()
	defer g.mu.Unlock()
	if i < len(g.arrs) {
		return g.arrs[i]
	}
	return nil
}
func (g *wGate) waitCount(n int, d time.Duration) bool {
	deadline := time.Now().Add(d)
	for g.count() < n {
		if time.Now().After(deadline) {
			return false
		}
		time.Sleep(100 * time.Microsecond)
	}
	return true
}
func (g *wGate) kill() {
	g.mu.Lock()
	g.dead = true
	for _, a := range g.arrs {
		select {
		case <-a.rel:
		default:
			close(a.rel)
		}
	}
	g.mu.Unlock()
}

type wConn struct {
	net.Conn
	g *wGate
}

func (c *wConn) Write(b []byte) (int, error) {
	a := &wArr{buf: b, rel: make(chan struct{}), done: make(chan struct{})}
	c.g.add(a)
	<-a.rel
	a.written = append([]byte(nil), b...) // what the transport is handed, at the time of the write
	n, err := c.Conn.Write(b)
	a.err = err
	close(a.done)
	return n, err
}

// the peer: reads the raw stream in random-sized pieces
type rawSink struct {
	mu     sync.Mutex
	stream []byte
	closed chan struct{}
}

func newRawSink(c net.Conn, r *common.Rand) *rawSink {
	s := &rawSink{closed: make(chan struct{})}
	sizes := make([]int, 64)
	for i := range sizes {
		switch r.Intn(4) {
		case 0:
			sizes[i] = 1 + r.Intn(7)
		case 1:
			sizes[i] = 1 + r.Intn(64)
		case 2:
			sizes[i] = 1 + r.Intn(4096)
		default:
			sizes[i] = 1 + r.Intn(70000)
		}
	}
	go func() {
		defer close(s.closed)
		buf := make([]byte, 70001)
		for i := 0; ; i++ {
			n, err := c.Read(buf[:sizes[i%len(sizes)]])
			if n > 0 {
				s.mu.Lock()
				s.stream = append(s.stream, buf[:n]...)
				s.mu.Unlock()
			}
			if err != nil {
				return
			}
		}
	}()
	return s
}
func (s *rawSink) waitLen(n int, d time.Duration) []byte {
	deadline := time.Now().Add(d)
	for {
		s.mu.Lock()
		l := len(s.stream)
		s.mu.Unlock()
		if l >= n || time.Now().After(deadline) {
			break
		}
		time.Sleep(100 * time.Microsecond)
	}
	s.mu.Lock()
	defer s.mu.Unlock()
	return append([]byte(nil), s.stream...)
}

// ---------- abstract case ----------
type wWriter struct {
	kind string // server side: R response, C router-handler response (Context.Write), H heartbeat echo, P push; client side: G Go, O one-way Go, S SendRaw
	pad  int
	meta bool
}
type wCase struct {
	side  string // srv | cli
	async bool
	pool  bool
	oneP  bool
	ws    []wWriter
	ops   []string // s<i> start writer i, r<i> release the write of writer i
}

func (c wCase) enc() string {
	var w []string
	for _, x := range c.ws {
		w = append(w, fmt.Sprintf("%s:%d:%s", x.kind, x.pad, b01(x.meta)))
	}
	return fmt.Sprintf("w8|%s|%v|%v|%v|%s|%s", c.side, c.async, c.pool, c.oneP, strings.Join(w, ","), strings.Join(c.ops, ","))
}
func decWCase(s string) wCase {
	p := strings.Split(s, "|")
	c := wCase{side: p[1], async: p[2] == "true", pool: p[3] == "true", oneP: p[4] == "true"}
	for _, e := range strings.Split(p[5], ",") {
		f := strings.Split(e, ":")
		n, _ := strconv.Atoi(f[1])
		c.ws = append(c.ws, wWriter{kind: f[0], pad: n, meta: f[2] == "1"})
	}
	c.ops = strings.Split(p[6], ",")
	return c
}

type BArgs struct {
	Id  int    `json:"Id"`
	Pad string `json:"Pad"`
}
type BReply struct {
	Id  int    `json:"Id"`
	Pad string `json:"Pad"`
}
type Sd08 struct{}

func (t *Sd08) Echo(ctx context.Context, a *BArgs, r *BReply) error {
	r.Id, r.Pad = a.Id, a.Pad+a.Pad
	return nil
}

// a predicted frame, as the model wants it (payload: prefix ~ n ~ suffix, n bytes 'x' in between)
type wFrame struct {
	hdr          [12]byte
	path, method string
	meta         []refcodec.KV
	pre          string
	n            int
	suf          string
}

func (f wFrame) bytes() []byte {
	pl := []byte(f.pre + strings.Repeat("x", f.n) + f.suf)
	return refcodec.Build(f.hdr, []byte(f.path), []byte(f.method), f.meta, pl)
}
func (f wFrame) tok(t int) string {
	var ms []string
	for _, kv := range f.meta {
		ms = append(ms, hex.EncodeToString(kv.K)+":"+hex.EncodeToString(kv.V))
	}
	m := "-"
	if len(ms) > 0 {
		m = strings.Join(ms, ",")
	}
	hx := func(s string) string {
		if s == "" {
			return "-"
		}
		return hex.EncodeToString([]byte(s))
	}
	return fmt.Sprintf("M;%d;%s;%s;%s;%s;%s~%d~%s", t, hex.EncodeToString(f.hdr[:]), hx(f.path), hx(f.method), m,
		hex.EncodeToString([]byte(f.pre)), f.n, hex.EncodeToString([]byte(f.suf)))
}

// a pad of letters and digits that gzip cannot shrink much
func noisePad(i, n int) string {
	const abc = "abcdefghijklmnopqrstuvwxyzABCDEFGHIJKLMNOPQRSTUVWXYZ0123456789"
	x := uint64(i)*2654435761 + 12345
	b := make([]byte, n)
	for k := range b {
		x = x*6364136223846793005 + 1442695040888963407
		b[k] = abc[(x>>33)%uint64(len(abc))]
	}
	return string(b)
}

func md5hex(b []byte) string { h := md5.Sum(b); return hex.EncodeToString(h[:]) }

// split a raw stream into frames with the independent decoder; returns the frames and the offset at
// which the stream stops being a sequence of whole, well-formed frames (-1 if it never does)
func splitFrames(stream []byte) ([][]byte, int) {
	var out [][]byte
	off := 0
	for off < len(stream) {
		if len(stream)-off < 16 || stream[off] != 0x08 {
			return out, off
		}
		total := int(binary.BigEndian.Uint32(stream[off+12 : off+16]))
		if len(stream)-off-16 < total {
			return out, off
		}
		fr := stream[off : off+16+total]
		if _, err := refcodec.Parse(fr); err != nil {
			return out, off
		}
		out = append(out, fr)
		off += 16 + total
	}
	return out, -1
}

func wRunCase(o *common.Out, id string, c wCase, r *common.Rand) {
	line := c.enc()
	o.Begin(id, line)
	// every case starts with empty buffer pools (sync.Pool is emptied by two collections), so that a
	// failing case replays on its own
	runtime.GC()
	runtime.GC()
	if c.oneP {
		prev := runtime.GOMAXPROCS(1)
		defer runtime.GOMAXPROCS(prev)
	}
	gate := &wGate{}
	var sink *rawSink
	var starters []func()
	pred := make([]wFrame, len(c.ws))
	var cleanup []func()
	meta := []refcodec.KV{{K: []byte("k\x00ey"), V: []byte("v=1&\xff")}}

	if c.side == "srv" {
		ln := newPipeListener()
		var opts []server.OptionFn
		if c.pool {
			opts = append(opts, server.WithPool(32, 256))
		}
		if (len(c.ws)+len(c.ops))%2 == 0 {
			// every other case: a write timeout is configured (generous: it never fires); a frame is still one write
			opts = append(opts, server.WithWriteTimeout(20*time.Second))
		}
		srv := server.NewServer(opts...)
		srv.AsyncWrite = c.async
		var sconn net.Conn
		accepted := make(chan struct{})
		later := make(chan net.Conn, 4) // connections accepted after the one under test (not gated)
		srv.Plugins.Add(&acceptWrap{f: func(cn net.Conn) net.Conn {
			if sconn != nil {
				later <- cn
				return cn
			}
			w := &wConn{Conn: cn, g: gate}
			sconn = w
			close(accepted)
			return w
		}})
		srv.RegisterName("Sd08", &Sd08{}, "")
		// a router handler: its response goes through Context.Write
		srv.AddHandler("Rt08", "Echo", func(ctx *server.Context) error {
			var a BArgs
			if err := ctx.Bind(&a); err != nil {
				return err
			}
			return ctx.Write(&BReply{Id: a.Id, Pad: a.Pad + a.Pad})
		})
		// a router handler that fails: its error response goes through Context.WriteError
		srv.AddHandler("Rt08", "Fail", func(ctx *server.Context) error {
			var a BArgs
			if err := ctx.Bind(&a); err != nil {
				return err
			}
			return fmt.Errorf("rt08 failed %d %s", a.Id, a.Pad)
		})
		go srv.ServeListener("vpipe", ln)
		<-srv.Started
		pc, err := ln.dial()
		if err != nil {
			o.Fail(id, "rig", "dial failed", line)
			return
		}
		<-accepted
		sink = newRawSink(pc, r)
		cleanup = append(cleanup, func() { gate.kill(); srv.Close(); ln.Close(); pc.Close() })
		pushSeq := 0
		for i, w := range c.ws {
			i, w := i, w
			switch w.kind {
			case "R":
				var h [12]byte
				h[0], h[3] = 8, 1<<4
				binary.BigEndian.PutUint64(h[4:], uint64(100+i))
				args, _ := json.Marshal(&BArgs{Id: i, Pad: strings.Repeat("x", w.pad)})
				var m []refcodec.KV
				if w.meta {
					m = meta
				}
				req := refcodec.Build(h, []byte("Sd08"), []byte("Echo"), m, args)
				starters = append(starters, func() { pc.Write(req) })
				rh := h
				rh[2] |= 0x80
				// the response carries the reply and the handler's response metadata (none), not the request's
				pred[i] = wFrame{hdr: rh, path: "Sd08", method: "Echo",
					pre: fmt.Sprintf(`{"Id":%d,"Pad":"`, i), n: 2 * w.pad, suf: `"}`}
			case "Z":
				// a request that asks for compression (gzip) with a pad that does not compress: the reply (twice the
				// pad) is compressed when it is longer than 1024 bytes - the frame is still one transport write
				var h [12]byte
				h[0], h[2], h[3] = 8, 1<<2, 1<<4
				binary.BigEndian.PutUint64(h[4:], uint64(100+i))
				padS := noisePad(i, w.pad)
				args, _ := json.Marshal(&BArgs{Id: i, Pad: padS})
				zargs, _ := protocol.Compressors[protocol.Gzip].Zip(args)
				req := refcodec.Build(h, []byte("Sd08"), []byte("Echo"), nil, append([]byte{}, zargs...))
				starters = append(starters, func() { pc.Write(req) })
				reply := []byte(fmt.Sprintf(`{"Id":%d,"Pad":"%s"}`, i, padS+padS))
				rh := h
				rh[2] = 0x80
				if len(reply) > 1024 {
					rh[2] |= 1 << 2
					z, _ := protocol.Compressors[protocol.Gzip].Zip(reply)
					reply = append([]byte{}, z...)
				}
				pred[i] = wFrame{hdr: rh, path: "Sd08", method: "Echo", pre: string(reply)}
			case "C":
				var h [12]byte
				h[0], h[3] = 8, 1<<4
				binary.BigEndian.PutUint64(h[4:], uint64(100+i))
				args, _ := json.Marshal(&BArgs{Id: i, Pad: strings.Repeat("x", w.pad)})
				req := refcodec.Build(h, []byte("Rt08"), []byte("Echo"), nil, args)
				starters = append(starters, func() { pc.Write(req) })
				rh := h
				rh[2] |= 0x80
				pred[i] = wFrame{hdr: rh, path: "Rt08", method: "Echo",
					pre: fmt.Sprintf(`{"Id":%d,"Pad":"`, i), n: 2 * w.pad, suf: `"}`}
			case "E":
				var h [12]byte
				h[0], h[3] = 8, 1<<4
				binary.BigEndian.PutUint64(h[4:], uint64(100+i))
				args, _ := json.Marshal(&BArgs{Id: i, Pad: strings.Repeat("x", w.pad)})
				req := refcodec.Build(h, []byte("Rt08"), []byte("Fail"), nil, args)
				starters = append(starters, func() { pc.Write(req) })
				rh := h
				rh[2] |= 0x80 | 0x01 // response, status Error
				pred[i] = wFrame{hdr: rh, path: "Rt08", method: "Fail",
					meta: []refcodec.KV{{K: []byte(protocol.ServiceError), V: []byte(fmt.Sprintf("rt08 failed %d %s", i, strings.Repeat("x", w.pad)))}}}
			case "X":
				// a push to a connection whose peer is gone: the frame is encoded into a pooled buffer, the write
				// fails, the buffer goes back - nothing reaches the connection under test
				pushSeq++
				var h [12]byte
				h[0], h[2] = 8, 0x20
				binary.BigEndian.PutUint64(h[4:], uint64(pushSeq))
				data := []byte(strings.Repeat("x", w.pad))
				starters = append(starters, func() {
					dc, err := ln.dial()
					if err != nil {
						return
					}
					var dead net.Conn
					select {
					case dead = <-later:
					case <-time.After(2 * time.Second):
						return
					}
					dc.Close()
					// the server notices the peer is gone and closes its end; then the push is attempted
					for k := 0; k < 400; k++ {
						if _, err := dead.Write(nil); err != nil {
							break
						}
						time.Sleep(500 * time.Microsecond)
					}
					srv.SendMessage(dead, "push", "notify", nil, data)
				})
				pred[i] = wFrame{hdr: h, path: "push", method: "notify", n: w.pad}
			case "H":
				var h [12]byte
				h[0], h[2], h[3] = 8, 0x40, 1<<4
				binary.BigEndian.PutUint64(h[4:], uint64(100+i))
				var m []refcodec.KV
				if w.meta {
					m = meta
				}
				req := refcodec.Build(h, nil, nil, m, []byte(strings.Repeat("x", w.pad)))
				starters = append(starters, func() { pc.Write(req) })
				rh := h
				rh[2] |= 0x80
				pred[i] = wFrame{hdr: rh, meta: m, n: w.pad}
			case "P":
				pushSeq++
				var h [12]byte
				h[0], h[2] = 8, 0x20
				binary.BigEndian.PutUint64(h[4:], uint64(pushSeq))
				var mm map[string]string
				var m []refcodec.KV
				if w.meta {
					mm = map[string]string{string(meta[0].K): string(meta[0].V)}
					m = meta
				}
				data := []byte(strings.Repeat("x", w.pad))
				starters = append(starters, func() { go srv.SendMessage(sconn, "push", "notify", mm, data) })
				pred[i] = wFrame{hdr: h, path: "push", method: "notify", meta: m, n: w.pad}
			}
		}
	} else {
		a, b := net.Pipe()
		client.ConnFactories["c08"] = func(cl *client.Client, network, address string) (net.Conn, error) {
			return &wConn{Conn: a, g: gate}, nil
		}
		opt := client.DefaultOption
		opt.SerializeType = protocol.JSON
		opt.Heartbeat = false
		cl := client.NewClient(opt)
		if err := cl.Connect("c08", "x"); err != nil {
			o.Fail(id, "rig", "connect failed: "+err.Error(), line)
			return
		}
		sink = newRawSink(b, r)
		cleanup = append(cleanup, func() { gate.kill(); cl.Close(); a.Close(); b.Close() })
		for i, w := range c.ws {
			i, w := i, w
			var h [12]byte
			h[0], h[3] = 8, 1<<4
			binary.BigEndian.PutUint64(h[4:], uint64(i))
			ctx := context.Background()
			var m []refcodec.KV
			if w.meta {
				ctx = context.WithValue(ctx, share.ReqMetaDataKey, map[string]string{string(meta[0].K): string(meta[0].V)})
				m = meta
			}
			args := &BArgs{Id: i, Pad: strings.Repeat("x", w.pad)}
			switch w.kind {
			case "G":
				starters = append(starters, func() { cl.Go(ctx, "Sd08", "Echo", args, &BReply{}, make(chan *client.Call, 1)) })
				pred[i] = wFrame{hdr: h, path: "Sd08", method: "Echo", meta: m, pre: fmt.Sprintf(`{"Id":%d,"Pad":"`, i), n: w.pad, suf: `"}`}
			case "O":
				h[2] |= 0x20
				starters = append(starters, func() { cl.Go(ctx, "Sd08", "Echo", args, nil, make(chan *client.Call, 1)) })
				pred[i] = wFrame{hdr: h, path: "Sd08", method: "Echo", meta: m, pre: fmt.Sprintf(`{"Id":%d,"Pad":"`, i), n: w.pad, suf: `"}`}
			case "X":
				// a call on another client whose transport refuses the write: its frame is encoded into a pooled buffer,
				// the write fails, the buffer goes back - nothing reaches the connection under test
				var xh [12]byte
				xh[0], xh[3] = 8, 1<<4
				starters = append(starters, func() {
					dcl := client.NewClient(opt)
					if err := dcl.Connect("c08dead", "x"); err != nil {
						return
					}
					c2, cancel := context.WithTimeout(ctx, 2*time.Second)
					dcl.Call(c2, "Sd08", "Echo", args, &BReply{})
					cancel()
					dcl.Close()
				})
				pred[i] = wFrame{hdr: xh, path: "Sd08", method: "Echo", meta: m, pre: fmt.Sprintf(`{"Id":%d,"Pad":"`, i), n: w.pad, suf: `"}`}
			case "S":
				// a raw message with its own sequence number (outside the range the client assigns)
				var rh [12]byte
				rh[0], rh[3] = 8, 0
				binary.BigEndian.PutUint64(rh[4:], uint64(1000+i))
				starters = append(starters, func() {
					msg := protocol.NewMessage()
					msg.SetMessageType(protocol.Request)
					msg.SetSeq(uint64(1000 + i))
					msg.ServicePath, msg.ServiceMethod = "raw", "m"
					msg.Payload = []byte(strings.Repeat("x", w.pad))
					go cl.SendRaw(ctx, msg)
				})
				pred[i] = wFrame{hdr: rh, path: "raw", method: "m", meta: m, n: w.pad}
			}
		}
	}
	defer func() {
		for _, f := range cleanup {
			f()
		}
	}()

	// run the schedule
	arrOf := map[int]int{} // writer -> index of its arrival at the gate
	var sched []string
	var order []int
	total := 0
	var fails []string
	var xs []int // writers of kind X that ran (no transport write on the connection under test)
	clientSeq := 0
	for _, op := range c.ops {
		i, _ := strconv.Atoi(op[1:])
		switch op[0] {
		case 's':
			if c.side == "cli" && c.ws[i].kind != "S" && c.ws[i].kind != "X" {
				// the client numbers its calls in the order they are issued
				binary.BigEndian.PutUint64(pred[i].hdr[4:], uint64(clientSeq))
				clientSeq++
			}
			n := gate.count()
			if c.ws[i].kind == "X" {
				starters[i]() // synchronous: encode, failed write, buffer returned
				sched = append(sched, "g"+strconv.Itoa(i), "p"+strconv.Itoa(i))
				xs = append(xs, i)
				continue
			}
			starters[i]()
			if !gate.waitCount(n+1, 2*time.Second) {
				fails = append(fails, fmt.Sprintf("no-write: writer %d (%s) never reached the transport", i, c.ws[i].kind))
				continue
			}
			arrOf[i] = n
			sched = append(sched, "g"+strconv.Itoa(i))
		case 'r':
			k, ok := arrOf[i]
			if !ok {
				continue // never reached the gate (or a push to a dead connection: nothing to release)
			}
			a := gate.get(k)
			close(a.rel)
			select {
			case <-a.done:
			case <-time.After(2 * time.Second):
				fails = append(fails, fmt.Sprintf("write-stuck: writer %d", i))
				continue
			}
			sched = append(sched, "w"+strconv.Itoa(i), "p"+strconv.Itoa(i))
			order = append(order, i)
			total += len(a.written)
			// one transport write per frame
			if fr, bad := splitFrames(a.written); bad != -1 || len(fr) != 1 {
				fails = append(fails, fmt.Sprintf("write-not-a-frame: the transport write of writer %d (%s, %d bytes) is not exactly one whole frame", i, c.ws[i].kind, len(a.written)))
			}
			// give the writer time to return its buffer before anything else moves
			time.Sleep(200 * time.Microsecond)
		}
	}
	if extra := gate.count() - len(arrOf); extra > 0 {
		fails = append(fails, fmt.Sprintf("extra-writes: %d transport writes beyond one per frame", extra))
	}
	stream := sink.waitLen(total, 2*time.Second)
	frames, bad := splitFrames(stream)
	var fs []string
	for k, fr := range frames {
		who := "?"
		if k < len(order) {
			who = strconv.Itoa(order[k])
		}
		fs = append(fs, who+":"+md5hex(fr))
		if os.Getenv("C08DEBUG") != "" && k < len(order) {
			want := pred[order[k]].bytes()
			for x := 0; x < len(fr) && x < len(want); x++ {
				if fr[x] != want[x] {
					fmt.Fprintf(os.Stderr, "frame %d differs at %d: got %x want %x (len %d/%d) hdr got %x want %x\n", k, x, fr[x:x+8], want[x:x+8], len(fr), len(want), fr[:16], want[:16])
					break
				}
			}
		}
	}
	obs := fmt.Sprintf("frames=%s stream=%d:%s", strings.Join(fs, ","), len(stream), md5hex(stream))
	if bad != -1 {
		obs += fmt.Sprintf(" torn@%d", bad)
		fails = append(fails, fmt.Sprintf("torn: the stream stops being whole frames at offset %d of %d", bad, len(stream)))
	}
	// oracle: frame k of the stream is the frame the k-th released writer sent
	if bad == -1 {
		if len(frames) != len(order) {
			fails = append(fails, fmt.Sprintf("frame-count: %d frames in the stream for %d writes", len(frames), len(order)))
		}
		for k, fr := range frames {
			if k < len(order) && !bytes.Equal(fr, pred[order[k]].bytes()) {
				fails = append(fails, fmt.Sprintf("wrong-frame: frame %d of the stream is not the frame writer %d (%s) sent", k, order[k], c.ws[order[k]].kind))
				if sdDebug {
					fmt.Printf("got  %q\nwant %q\n", fr, pred[order[k]].bytes())
				}
				break
			}
		}
	}
	var toks []string
	for _, i := range order {
		toks = append(toks, pred[i].tok(i))
	}
	// writers that were started but never released take part in the schedule too (their Get / Fill)
	for i := range c.ws {
		if _, ok := arrOf[i]; ok {
			rel := false
			for _, j := range order {
				if j == i {
					rel = true
				}
			}
			if !rel {
				toks = append(toks, pred[i].tok(i))
			}
		}
	}
	for _, i := range xs {
		toks = append(toks, pred[i].tok(i), "X;"+strconv.Itoa(i))
	}
	toks = append(toks, "S;"+strings.Join(sched, ","))
	if len(c.ws) > 200 {
		// a burst of over a thousand writers: the list-based model would take minutes; the oracle above is independent of it
		o.ImplOnly(id, line, true)
	} else {
		o.Case(id, strings.Join(toks, " "), obs, len(order) >= 2)
	}
	for _, f := range fails {
		o.Fail(id, f[:strings.Index(f, ":")], f, line)
	}
	o.Count("side=" + c.side)
	o.Count(fmt.Sprintf("async=%v pool=%v oneP=%v", c.async, c.pool, c.oneP))
	for _, w := range c.ws {
		o.Count("writer=" + w.kind)
		switch {
		case w.pad == 0:
			o.Count("size=0")
		case w.pad < 400:
			o.Count("size<400")
		case w.pad < 4096:
			o.Count("size<4096 (pooled)")
		case w.pad < 65536:
			o.Count("size<64Ki")
		default:
			o.Count("size>=64Ki")
		}
	}
}

type acceptWrap struct{ f func(net.Conn) net.Conn }

func (p *acceptWrap) HandleConnAccept(c net.Conn) (net.Conn, bool) { return p.f(c), true }

func genWCase(r *common.Rand, tier string) wCase {
	c := wCase{}
	if r.Chance(60) {
		c.side = "srv"
		c.async = r.Chance(30)
		c.pool = r.Chance(30)
	} else {
		c.side = "cli"
	}
	c.oneP = r.Chance(40)
	n := 2 + r.Intn(6)
	sizes := []int{0, 1, 7, 100, 200, 230, 300, 500, 1000, 1900, 2040, 3000, 4000, 5000, 40000, 70000}
	if tier == "thorough" && r.Chance(12) {
		// rarely: the model works on lists of bytes, a 1 MiB frame costs it seconds
		sizes = append(sizes, 300000, 1<<20)
	}
	for i := 0; i < n; i++ {
		var k string
		if c.side == "srv" {
			k = []string{"R", "R", "C", "C", "H", "H", "P", "E", "X", "Z"}[r.Intn(10)]
		} else {
			k = []string{"G", "G", "G", "O", "S", "X"}[r.Intn(6)]
		}
		pad := sizes[r.Intn(len(sizes))]
		if r.Chance(50) {
			pad = sizes[r.Intn(9)] // mostly frames that come from the pool's size classes
		}
		c.ws = append(c.ws, wWriter{kind: k, pad: pad, meta: r.Chance(30)})
	}
	// random interleaving of starts and releases: a release needs its start
	started, released := []int{}, map[int]bool{}
	next := 0
	for len(released) < n {
		canStart := next < n
		var pending []int
		for _, i := range started {
			if !released[i] {
				pending = append(pending, i)
			}
		}
		if canStart && (len(pending) == 0 || r.Chance(55)) {
			c.ops = append(c.ops, "s"+strconv.Itoa(next))
			started = append(started, next)
			next++
		} else {
			i := pending[r.Intn(len(pending))]
			c.ops = append(c.ops, "r"+strconv.Itoa(i))
			released[i] = true
		}
	}
	return c
}

func runShared(r *common.Rand, tier string, o *common.Out, replay string) {
	if strings.HasPrefix(replay, "zipown|") {
		p := strings.Split(replay, "|")
		lv, _ := strconv.Atoi(p[1])
		sz, _ := strconv.Atoi(p[2])
		kind := "gzip"
		if len(p) > 3 {
			kind = p[3]
		}
		zipOwnCaseOf(o, "replay", kind, lv, sz, "frame-not-sent")
		return
	}
	if replay != "" {
		wRunCase(o, "replay", decWCase(replay), r)
		return
	}
	zipOwnProbe(o)
	n := 0
	// systematic part: a writer finishes (its buffer goes back to the pool), then two writers overlap and
	// are released in reverse order - for every pair of writer kinds and both sides, on one P (the pool
	// then hands the same buffer out again at once)
	for _, side := range []string{"srv", "cli"} {
		kinds := []string{"R", "C", "H", "P"}
		if side == "cli" {
			kinds = []string{"G", "O", "S"}
		}
		for _, k0 := range kinds {
			for _, k1 := range kinds {
				for _, k2 := range kinds {
					for _, async := range []bool{false, true} {
						if async && side == "cli" {
							continue
						}
						c := wCase{side: side, async: async, oneP: true,
							ws:  []wWriter{{kind: k0, pad: 100}, {kind: k1, pad: 120}, {kind: k2, pad: 90}},
							ops: []string{"s0", "r0", "s1", "s2", "r2", "r1"}}
						wRunCase(o, fmt.Sprintf("sys%d", n), c, r)
						n++
					}
				}
			}
		}
	}
	// the same after an error path has run: a router handler's error response (Context.WriteError), a push whose
	// write fails because the peer is gone - each path returns its frame buffer exactly once
	for _, k0 := range []string{"E", "X"} {
		for _, k1 := range []string{"R", "C", "H", "P", "E"} {
			for _, k2 := range []string{"R", "C", "P"} {
				for _, async := range []bool{false, true} {
					c := wCase{side: "srv", async: async, oneP: true,
						ws:  []wWriter{{kind: k0, pad: 100}, {kind: k1, pad: 120}, {kind: k2, pad: 90}},
						ops: []string{"s0", "r0", "s1", "s2", "r2", "r1"}}
					wRunCase(o, fmt.Sprintf("sys%d", n), c, r)
					n++
				}
			}
		}
	}
	// the client side after a write the transport refused (on another client: the frame pool is the process's)
	for _, k1 := range []string{"G", "O", "S"} {
		for _, k2 := range []string{"G", "O", "S"} {
			for _, pad := range []int{100, 700, 3000} {
				c := wCase{side: "cli", oneP: true,
					ws:  []wWriter{{kind: "X", pad: pad}, {kind: k1, pad: pad + 10}, {kind: k2, pad: pad - 10}, {kind: "G", pad: pad}},
					ops: []string{"s0", "s1", "s2", "r2", "s3", "r1", "r3"}}
				wRunCase(o, fmt.Sprintf("sys%d", n), c, r)
				n++
			}
		}
	}
	// large frames from every client entry point next to a small one: still one transport write each
	for _, k1 := range []string{"S", "G", "O"} {
		for _, k2 := range []string{"G", "S"} {
			for _, pad := range []int{17000, 40000, 70000} {
				c := wCase{side: "cli", oneP: true,
					ws:  []wWriter{{kind: k1, pad: pad}, {kind: k2, pad: 150}, {kind: k1, pad: pad + 5}},
					ops: []string{"s0", "s1", "r1", "r0", "s2", "r2"}}
				wRunCase(o, fmt.Sprintf("sys%d", n), c, r)
				n++
			}
		}
	}
	// compressed replies next to other writers, synchronous and asynchronous writes, with and without the worker pool
	for _, k1 := range []string{"R", "H", "P", "Z"} {
		for _, async := range []bool{false, true} {
			for _, pool := range []bool{false, true} {
				for _, pad := range []int{300, 900, 2500} {
					c := wCase{side: "srv", async: async, pool: pool, oneP: true,
						ws:  []wWriter{{kind: "Z", pad: pad}, {kind: k1, pad: 120}, {kind: "Z", pad: pad + 40}},
						ops: []string{"s0", "r0", "s1", "s2", "r2", "r1"}}
					wRunCase(o, fmt.Sprintf("sys%d", n), c, r)
					n++
				}
			}
		}
	}
	// bursts: more than a thousand frames of one size class encoded and waiting for the transport at the same time,
	// written, and then as many again (what stands between the encoders and sync.Pool is driven to its capacity)
	for _, depth := range []int{1030} {
		c := wCase{side: "cli"}
		for b := 0; b < 2; b++ {
			for i := 0; i < depth; i++ {
				c.ws = append(c.ws, wWriter{kind: "G", pad: 100})
				c.ops = append(c.ops, "s"+strconv.Itoa(b*depth+i))
			}
			for i := 0; i < depth; i++ {
				c.ops = append(c.ops, "r"+strconv.Itoa(b*depth+i))
			}
		}
		wRunCase(o, fmt.Sprintf("burst%d", depth), c, r)
		n++
	}
	m := 150
	if tier == "thorough" {
		m = 4000
	}
	for i := 0; i < m; i++ {
		wRunCase(o, fmt.Sprintf("rnd%d", i), genWCase(r, tier), r)
	}
	_ = bufio.NewReader
	_ = io.EOF
}

// zipText: n bytes of text whose redundancy is set by level (0: a few words repeated, 3: close to random letters)
func zipText(level, n, salt int) []byte {
	words := []int{12, 200, 3000, 60000}[level]
	b := make([]byte, 0, n+16)
	x := uint32(salt*2654435761 + 12345)
	for len(b) < n {
		x = x*1664525 + 1013904223
		w := int(x>>8) % words
		b = append(b, fmt.Sprintf("w%x-%d ", w*2654435761, w%97)...)
	}
	return b[:n]
}

// zipOwnCase: what the gzip compressor hands to an encoder is the encoder's own: it still holds the same bytes, and
// still inflates to what was compressed, after the compressor has served others - whatever was compressed before
// (level, size: the payload that went through the compressor just before; it decides what scratch space is lying
// around).  On one P and without a collection in between, a scratch buffer that is handed out and also kept for the
// next caller is the next caller's at once.
var zipKinds = map[string]protocol.Compressor{"gzip": protocol.Compressors[protocol.Gzip], "snappy": &protocol.SnappyCompressor{},
	"raw": &protocol.RawDataCompressor{}}

func zipOwnCase(o *common.Out, id string, level, size int) { zipOwnCaseOf(o, id, "gzip", level, size, "frame-not-sent") }

func zipOwnCaseOf(o *common.Out, id string, kind string, level, size int, sig string) {
	line := fmt.Sprintf("zipown|%d|%d|%s", level, size, kind)
	old := runtime.GOMAXPROCS(1)
	defer runtime.GOMAXPROCS(old)
	gz := zipKinds[kind]
	if _, err := gz.Zip(zipText(level, size, 1)); err != nil {
		o.Fail(id, "rig", "zip failed: "+err.Error(), line)
		return
	}
	var own, snap [][]byte
	var src [][]byte
	for i := 0; i < 4; i++ {
		p := zipText(i%4, 1500+700*i, 10+i)
		z, err := gz.Zip(p)
		if err != nil {
			o.Fail(id, "rig", "zip failed: "+err.Error(), line)
			return
		}
		src, own, snap = append(src, p), append(own, z), append(snap, append([]byte(nil), z...))
	}
	for i := range own {
		if !bytes.Equal(own[i], snap[i]) {
			o.Fail(id, sig, fmt.Sprintf("compressed payload %d (%d bytes) changed under its encoder while the compressor served the next one (before it: %d bytes of level-%d text)", i, len(snap[i]), size, level), line)
			return
		}
		if back, err := gz.Unzip(own[i]); err != nil || !bytes.Equal(back, src[i]) {
			o.Fail(id, sig, fmt.Sprintf("compressed payload %d does not inflate to what was compressed (%v)", i, err), line)
			return
		}
	}
	o.ImplOnly(id, line, true)
	o.Count("compressor-ownership")
}

func zipOwnProbe(o *common.Out) { zipOwnProbeOf(o, "frame-not-sent") }

func zipOwnProbeOf(o *common.Out, sig string) {
	n := 0
	for level := 0; level < 4; level++ {
		for size := 600; size < 1500000; size = size*4/3 + 17 {
			zipOwnCaseOf(o, fmt.Sprintf("zipown%d", n), "gzip", level, size, sig)
			n++
		}
	}
	// the compressors an application registers itself
	for _, kind := range []string{"snappy", "raw"} {
		for level := 0; level < 4; level++ {
			for _, size := range []int{0, 700, 5000, 70000, 300000} {
				zipOwnCaseOf(o, fmt.Sprintf("zipown%d", n), kind, level, size, sig)
				n++
			}
		}
	}
}
