package main

// C09: arguments with optional fields and maps, in every shape a service method may take them (pointer to a pooled
// type, a pooled type BY VALUE, a plain type), over JSON and MessagePack: a request that leaves fields out - sent
// after one that filled them in, on one P so that the server's object pools hand the same object out again - reaches
// the handler with exactly what it carried.  Oracle only.

import (
	"context"
	"fmt"
	"runtime"
	"sort"
	"strings"
	"sync"

	"github.com/smallnest/rpcx/client"
	"github.com/smallnest/rpcx/protocol"
	"github.com/smallnest/rpcx/server"

	"verifharness/internal/common"
)

type SpArgs struct {
	Id   int               `json:"Id" msgpack:"Id"`
	Note string            `json:"Note,omitempty" msgpack:"Note,omitempty"`
	N    int               `json:"N,omitempty" msgpack:"N,omitempty"`
	Tags map[string]string `json:"Tags,omitempty" msgpack:"Tags,omitempty"`
	List []int             `json:"List,omitempty" msgpack:"List,omitempty"`
}

func (a SpArgs) show() string {
	var ks []string
	for k, v := range a.Tags {
		ks = append(ks, k+"="+v)
	}
	sort.Strings(ks)
	return fmt.Sprintf("Id=%d Note=%q N=%d Tags=[%s] List=%v", a.Id, a.Note, a.N, strings.Join(ks, ","), a.List)
}

// pooled variant: the pointer type implements Reset
type SpPArgs SpArgs

func (a *SpPArgs) Reset() { *a = SpPArgs{} }

type SpReply struct{ Ok bool }

type spSeen struct {
	mu   sync.Mutex
	seen map[int]string
}

func (s *spSeen) note(id int, v string) { s.mu.Lock(); s.seen[id] = v; s.mu.Unlock() }

type SpSvc struct{ s *spSeen }

func (t *SpSvc) Plain(ctx context.Context, a *SpArgs, r *SpReply) error {
	t.s.note(a.Id, a.show())
	r.Ok = true
	return nil
}
func (t *SpSvc) Pooled(ctx context.Context, a *SpPArgs, r *SpReply) error {
	t.s.note(a.Id, SpArgs(*a).show())
	r.Ok = true
	return nil
}
func (t *SpSvc) ByValue(ctx context.Context, a SpPArgs, r *SpReply) error {
	t.s.note(a.Id, SpArgs(a).show())
	r.Ok = true
	return nil
}

func e2eSparse(o *common.Out, id string, ser protocol.SerializeType, method string) {
	abstract := fmt.Sprintf("sparse|%d|%s", int(ser), method)
	o.Begin(id, abstract)
	prev := runtime.GOMAXPROCS(1)
	defer runtime.GOMAXPROCS(prev)
	seen := &spSeen{seen: map[int]string{}}
	srv := server.NewServer()
	srv.RegisterName("Sp", &SpSvc{s: seen}, "")
	ln := newPipeListener()
	go srv.ServeListener("vpipe", ln)
	<-srv.Started
	defer func() { srv.Close(); ln.Close() }()
	name := "sparse-" + id
	spMu.Lock()
	spLns[name] = ln
	spMu.Unlock()
	opt := client.DefaultOption
	opt.SerializeType = ser
	opt.Heartbeat = false
	cl := client.NewClient(opt)
	if err := cl.Connect("vsparse", name); err != nil {
		o.Fail(id, "rig", err.Error(), abstract)
		return
	}
	defer cl.Close()
	sent := []SpArgs{
		{Id: 1, Note: "first", N: 7, Tags: map[string]string{"a": "1", "b": "2"}, List: []int{1, 2, 3}},
		{Id: 2},
		{Id: 3, Tags: map[string]string{"c": "3"}},
		{Id: 4, Note: "x"},
		{Id: 5, List: []int{9}},
		{Id: 6},
	}
	for _, a := range sent {
		var rep SpReply
		var err error
		switch method {
		case "Plain":
			arg := a
			err = cl.Call(context.Background(), "Sp", "Plain", &arg, &rep)
		default:
			arg := SpPArgs(a)
			err = cl.Call(context.Background(), "Sp", method, &arg, &rep)
		}
		if err != nil {
			o.Fail(id, "rig", fmt.Sprintf("call %d failed: %v", a.Id, err), abstract)
			return
		}
		seen.mu.Lock()
		got := seen.seen[a.Id]
		seen.mu.Unlock()
		if got != a.show() {
			o.Fail(id, "handler-args-differ", fmt.Sprintf("method %s, serialization %d: the caller sent {%s}, the handler was given {%s}", method, int(ser), a.show(), got), abstract)
			break
		}
	}
	o.ImplOnly(id, abstract, true)
	o.Count("sparse-arguments")
}

var (
	spMu  sync.Mutex
	spLns = map[string]*pipeListener{}
)
