package main

import (
	"context"
	"encoding/json"
	"fmt"
	"net"
	"sort"
	"strconv"
	"strings"
	"sync"
	"sync/atomic"
	"time"

	"github.com/smallnest/rpcx/client"
	"github.com/smallnest/rpcx/protocol"

	"verifharness/internal/common"
)

func init() { props["C17"] = runC17 }

const c17Slot = 35 // ms between scripted completions

var c17seq int64

// run one of B/F/I against n scripted servers; v[i] in {ok<r>, svc, lost, slow}; order = completion order
// network "vslow": the same scripted servers, reached through clients whose Close takes a while (a transport that
// flushes, a close plugin doing I/O): the verdict of a multi-server call does not depend on how long the clean-up
// after a failed server takes
type slowClient struct{ *client.Client }

func (c *slowClient) Close() error {
	time.Sleep(6 * time.Millisecond)
	return c.Client.Close()
}

type slowBuilder struct {
	mu sync.Mutex
	m  map[string]client.RPCClient
}

func (b *slowBuilder) SetCachedClient(c client.RPCClient, k, sp, sm string) {
	b.mu.Lock()
	b.m[k] = c
	b.mu.Unlock()
}
func (b *slowBuilder) FindCachedClient(k, sp, sm string) client.RPCClient {
	b.mu.Lock()
	defer b.mu.Unlock()
	if c, ok := b.m[k]; ok {
		return c
	}
	return nil
}
func (b *slowBuilder) DeleteCachedClient(c client.RPCClient, k, sp, sm string) {
	b.mu.Lock()
	delete(b.m, k)
	b.mu.Unlock()
}
func (b *slowBuilder) GenerateClient(k, sp, sm string) (client.RPCClient, error) {
	opt := client.DefaultOption
	opt.SerializeType = protocol.JSON
	opt.Heartbeat = false
	c := client.NewClient(opt)
	if err := c.Connect("vsrv", strings.TrimPrefix(k, "vslow@")); err != nil {
		return nil, err
	}
	return &slowClient{c}, nil
}

func init() {
	client.RegisterCacheClientBuilder("vslow", &slowBuilder{m: map[string]client.RPCClient{}})
}

// op suffixes: "s" = Sticky option with a sticky server established, "w" = clients whose Close takes a while
func c17Base(op string) string { return strings.TrimRight(op, "sw") }

func c17Run(op string, v []string, order []int, sticky bool) (obs string, fails []string) {
	slow := strings.HasSuffix(op, "w")
	op = c17Base(op)
	uid := atomic.AddInt64(&c17seq, 1)
	n := len(v)
	rank := make([]int, n)
	for pos, i := range order {
		rank[i] = pos
	}
	hasSlow := false
	speaking := 0
	spoke := make(chan struct{}, 2*n+2)
	var pairs []*client.KVPair
	var addrs []string
	for i := 0; i < n; i++ {
		addr := fmt.Sprintf("c17-%d-s%d", uid, i)
		act := v[i]
		if act == "slow" {
			act = "silent"
			hasSlow = true
		}
		fs := &fakeServer{id: i, calls: []string{act}, delayMs: rank[i] * c17Slot}
		if act != "silent" {
			speaking++
			fs.acted = func() { spoke <- struct{}{} }
		}
		registerFake(addr, fs)
		addrs = append(addrs, addr)
		if slow {
			pairs = append(pairs, &client.KVPair{Key: "vslow@" + addr})
		} else {
			pairs = append(pairs, &client.KVPair{Key: "vsrv@" + addr})
		}
	}
	defer func() {
		for _, a := range addrs {
			unregisterFake(a)
		}
	}()
	d, _ := client.NewMultipleServersDiscovery(pairs)
	opt := client.DefaultOption
	opt.SerializeType = protocol.JSON
	opt.Heartbeat = false
	opt.Sticky = sticky
	if (len(v)+order[0])%2 == 1 {
		// per-server circuit breakers that never open: nothing changes
		opt.GenBreaker = func() client.Breaker { return client.NewConsecCircuitBreaker(1000, time.Minute) }
	}
	xc := client.NewXClient("Svc", client.Failfast, client.RandomSelect, d, opt)
	defer xc.Close()
	ctx := context.Background()
	if sticky {
		// an earlier ordinary call has made one of the servers the client's sticky server
		var w int
		xc.Call(ctx, "warmup", 1, &w)
	}
	if hasSlow {
		// slow servers complete last, with the deadline error: the caller's deadline passes a while after every other
		// server has carried out its scripted action (not after a fixed time: the machine may be busy)
		base, cancel := context.WithTimeout(ctx, 20*time.Second)
		defer cancel()
		dl := newDeadlineCtx(base)
		ctx = dl
		go func() {
			for k := 0; k < speaking; k++ {
				select {
				case <-spoke:
				case <-base.Done():
					return
				}
			}
			time.Sleep(250 * time.Millisecond)
			dl.expire()
		}()
	}
	var reply int
	class := func(err error) string {
		switch {
		case err == nil:
			return "nil"
		case strings.HasPrefix(err.Error(), "svc-error-from-"):
			return "svc"
		case err == context.DeadlineExceeded || strings.Contains(err.Error(), "deadline"):
			return "slow"
		default:
			return "lost"
		}
	}
	anyOK, allOK := false, true
	okReplies := map[int]bool{}
	// which of several successful servers' replies the caller ends up with depends on their completion order,
	// forced here by delays only: "S" = the reply of a server that succeeded
	showReply := func(ok bool) string {
		if !ok {
			return "*"
		}
		if okReplies[reply] {
			return "S"
		}
		return strconv.Itoa(reply)
	}
	for _, o := range v {
		if strings.HasPrefix(o, "ok") {
			anyOK = true
			r, _ := strconv.Atoi(o[2:])
			okReplies[r] = true
		} else {
			allOK = false
		}
	}
	switch op {
	case "B":
		err := xc.Broadcast(ctx, "M", 1, &reply)
		obs = fmt.Sprintf("%s reply=%s", map[bool]string{true: "nil", false: "err"}[err == nil], showReply(err == nil))
		if (err == nil) != allOK {
			fails = append(fails, fmt.Sprintf("broadcast-verdict|Broadcast returned %v for outcomes %v", err, v))
		}
		if err == nil && !okReplies[reply] {
			fails = append(fails, fmt.Sprintf("reply-not-from-a-success|Broadcast reported success with reply %d, which no successful server produced (%v)", reply, v))
		}
	case "F":
		err := xc.Fork(ctx, "M", 1, &reply)
		obs = fmt.Sprintf("%s reply=%s", map[bool]string{true: "nil", false: "err"}[err == nil], showReply(err == nil))
		if (err == nil) != anyOK {
			fails = append(fails, fmt.Sprintf("fork-verdict|Fork returned %v for outcomes %v completing in order %v", err, v, order))
		}
		if err == nil && !okReplies[reply] {
			fails = append(fails, fmt.Sprintf("reply-not-from-a-success|Fork reported success with reply %d, which no successful server produced (%v)", reply, v))
		}
	default:
		rs, err := xc.Inform(ctx, "M", 1, &reply)
		var parts []string
		seen := map[string]bool{}
		for _, r := range rs {
			idx := strings.LastIndex(r.Address, "-s")
			id := r.Address[idx+2:]
			rep := "-"
			if r.Error == nil {
				if p, ok := r.Reply.(*int); ok && p != nil {
					rep = strconv.Itoa(*p)
				}
			}
			parts = append(parts, fmt.Sprintf("s%s:%s:%s", id, rep, class(r.Error)))
			seen[id] = true
			i, _ := strconv.Atoi(id)
			want := v[i]
			if strings.HasPrefix(want, "ok") {
				if r.Error != nil {
					fails = append(fails, fmt.Sprintf("inform-receipt|receipt of server %d carries error %v although it answered successfully", i, r.Error))
				} else if rep != want[2:] {
					fails = append(fails, fmt.Sprintf("inform-receipt|receipt of server %d carries reply %s, it answered %s", i, rep, want[2:]))
				}
			} else if r.Error == nil {
				fails = append(fails, fmt.Sprintf("inform-receipt|receipt of server %d has a nil error although it %s", i, want))
			}
		}
		if len(rs) != n {
			fails = append(fails, fmt.Sprintf("inform-receipt|%d receipts for %d contacted servers", len(rs), n))
		}
		sort.Strings(parts)
		obs = fmt.Sprintf("%s [%s] reply=%s", map[bool]string{true: "nil", false: "err"}[err == nil], strings.Join(parts, ","), showReply(err == nil))
		if (err == nil) != allOK {
			fails = append(fails, fmt.Sprintf("inform-verdict|Inform returned %v for outcomes %v", err, v))
		}
	}
	return obs, fails
}

// a reply type with a slice, a map and a pointer: whatever the caller's reply variable held before the call (the
// previous call's answer, its capacity, its map), each server's answer is that server's own
type c17Rich struct {
	Vals []int
	Tags map[string]int
	P    *int
}

func (x *c17Rich) show() string {
	if x == nil {
		return "nil"
	}
	keys := make([]string, 0, len(x.Tags))
	for k, v := range x.Tags {
		keys = append(keys, fmt.Sprintf("%s=%d", k, v))
	}
	sort.Strings(keys)
	p := "nil"
	if x.P != nil {
		p = strconv.Itoa(*x.P)
	}
	return fmt.Sprintf("%v/%s/%s", x.Vals, strings.Join(keys, ","), p)
}

// c17Structured: two consecutive multi-server calls that share one reply variable.  spec = "<op1><op2>|<n>|<fail mask>"
func c17Structured(o *common.Out, id, spec string) {
	o.Begin(id, spec)
	p := strings.Split(strings.TrimPrefix(spec, "rich "), "|")
	ops := p[0]
	n, _ := strconv.Atoi(p[1])
	mask, _ := strconv.Atoi(p[2])
	uid := atomic.AddInt64(&c17seq, 1)
	var pairs []*client.KVPair
	var addrs []string
	answer := func(round, i int) *c17Rich {
		v := 100*round + 10*(i+1)
		pv := v + 1
		return &c17Rich{Vals: []int{v, v + 1, v + 2}[:1+(i+round)%3], Tags: map[string]int{fmt.Sprintf("s%d", i): v}, P: &pv}
	}
	for i := 0; i < n; i++ {
		addr := fmt.Sprintf("c17r-%d-s%d", uid, i)
		// the answer is chosen by the request's argument (the round): a Fork returns as soon as one server has
		// succeeded, so a request of the first call may never be sent
		calls := map[string]string{}
		for round := 1; round <= 2; round++ {
			if round == 2 && mask&(1<<i) != 0 {
				calls[strconv.Itoa(round)] = "svc"
				continue
			}
			b, _ := json.Marshal(answer(round, i))
			calls[strconv.Itoa(round)] = "js:" + string(b)
		}
		registerFake(addr, &fakeServer{id: i, byArg: calls, delayMs: (i * 7) % 3 * 5})
		addrs = append(addrs, addr)
		pairs = append(pairs, &client.KVPair{Key: "vsrv@" + addr})
	}
	defer func() {
		for _, a := range addrs {
			unregisterFake(a)
		}
	}()
	d, _ := client.NewMultipleServersDiscovery(pairs)
	opt := client.DefaultOption
	opt.SerializeType = protocol.JSON
	opt.Heartbeat = false
	xc := client.NewXClient("Svc", client.Failfast, client.RandomSelect, d, opt)
	defer xc.Close()
	reply := &c17Rich{}
	var held []client.Receipt // the receipts of the first call stay with the caller
	for round := 1; round <= 2; round++ {
		op := ops[round-1]
		okShow := map[string]bool{}
		nOK := 0
		for i := 0; i < n; i++ {
			if !(round == 2 && mask&(1<<i) != 0) {
				okShow[answer(round, i).show()] = true
				nOK++
			}
		}
		ctx, cancel := context.WithTimeout(context.Background(), 5*time.Second)
		switch op {
		case 'B', 'F':
			var err error
			if op == 'B' {
				err = xc.Broadcast(ctx, "M", round, reply)
			} else {
				err = xc.Fork(ctx, "M", round, reply)
			}
			if err == nil && !okShow[reply.show()] {
				o.Fail(id, "reply-not-from-a-success", fmt.Sprintf("call %d (%c) reported success, the caller's reply is %s, which no successful server produced (they produced %v)", round, op, reply.show(), okShow), spec)
			}
		case 'I':
			rs, _ := xc.Inform(ctx, "M", round, reply)
			if len(rs) != n {
				o.Fail(id, "inform-receipt", fmt.Sprintf("call %d: %d receipts for %d servers", round, len(rs), n), spec)
			}
			for _, rc := range rs {
				i := -1
				for k, a := range addrs {
					if strings.HasSuffix(rc.Address, a) {
						i = k
					}
				}
				if i < 0 {
					continue
				}
				failed := round == 2 && mask&(1<<i) != 0
				if failed != (rc.Error != nil) {
					o.Fail(id, "inform-receipt", fmt.Sprintf("call %d: server %d failed=%v, its receipt's error is %v", round, i, failed, rc.Error), spec)
				}
				if !failed {
					got, _ := rc.Reply.(*c17Rich)
					if want := answer(round, i).show(); got.show() != want {
						o.Fail(id, "inform-receipt", fmt.Sprintf("call %d: the receipt of server %d carries %s, that server answered %s", round, i, got.show(), want), spec)
					}
				}
			}
			if round == 1 {
				held = rs
			}
		}
		cancel()
	}
	// what the first call handed out is the caller's: the second call must not have rewritten it
	for _, rc := range held {
		for k, a := range addrs {
			if strings.HasSuffix(rc.Address, a) {
				got, _ := rc.Reply.(*c17Rich)
				if want := answer(1, k).show(); got.show() != want {
					o.Fail(id, "inform-receipt", fmt.Sprintf("the receipt of server %d from the first call read %s; after the second call it reads %s", k, want, got.show()), spec)
				}
			}
		}
	}
	o.ImplOnly(id, spec, true)
	o.Count("structured-replies")
}

// c17Raw: the same with raw-bytes replies (serialization None, *[]byte): the bytes a call reported - the caller's reply,
// the receipts - stay what they were when later answers arrive on the same connections.  spec = "raw <op1><op2>|<n>"
func c17Raw(o *common.Out, id, spec string) {
	o.Begin(id, spec)
	p := strings.Split(strings.TrimPrefix(spec, "raw "), "|")
	ops := p[0]
	n, _ := strconv.Atoi(p[1])
	uid := atomic.AddInt64(&c17seq, 1)
	answer := func(round, i int) string {
		return fmt.Sprintf("answer-of-server-%d-to-call-%d-%s", i, round, strings.Repeat("x", 8))
	}
	var pairs []*client.KVPair
	var addrs []string
	for i := 0; i < n; i++ {
		addr := fmt.Sprintf("c17b-%d-s%d", uid, i)
		calls := map[string]string{}
		for round := 1; round <= 3; round++ {
			calls[strconv.Itoa(round)] = "js:" + answer(round, i)
		}
		registerFake(addr, &fakeServer{id: i, byArg: calls, delayMs: (i * 7) % 3 * 4})
		addrs = append(addrs, addr)
		pairs = append(pairs, &client.KVPair{Key: "vsrv@" + addr})
	}
	defer func() {
		for _, a := range addrs {
			unregisterFake(a)
		}
	}()
	d, _ := client.NewMultipleServersDiscovery(pairs)
	opt := client.DefaultOption
	opt.SerializeType = protocol.SerializeNone
	opt.Heartbeat = false
	xc := client.NewXClient("Svc", client.Failfast, client.RandomSelect, d, opt)
	defer xc.Close()
	type kept struct {
		what string
		b    *[]byte
		was  string
	}
	var keep []kept
	valid := func(round int, s string) bool {
		for i := 0; i < n; i++ {
			if s == answer(round, i) {
				return true
			}
		}
		return false
	}
	for round := 1; round <= len(ops); round++ {
		op := ops[round-1]
		reply := new([]byte)
		args := []byte(strconv.Itoa(round))
		ctx, cancel := context.WithTimeout(context.Background(), 5*time.Second)
		switch op {
		case 'B', 'F':
			var err error
			if op == 'B' {
				err = xc.Broadcast(ctx, "M", &args, reply)
			} else {
				err = xc.Fork(ctx, "M", &args, reply)
			}
			if err == nil && !valid(round, string(*reply)) {
				o.Fail(id, "reply-not-from-a-success", fmt.Sprintf("call %d (%c) reported success, the caller's reply is %q, which no server sent for this call", round, op, *reply), spec)
			}
			if err == nil {
				keep = append(keep, kept{fmt.Sprintf("the reply of call %d (%c)", round, op), reply, string(*reply)})
			}
		case 'I':
			rs, _ := xc.Inform(ctx, "M", &args, reply)
			for _, rc := range rs {
				for k, a := range addrs {
					if !strings.HasSuffix(rc.Address, a) {
						continue
					}
					got, _ := rc.Reply.(*[]byte)
					if rc.Error != nil || got == nil || string(*got) != answer(round, k) {
						gs := "nil"
						if got != nil {
							gs = string(*got)
						}
						o.Fail(id, "inform-receipt", fmt.Sprintf("call %d: the receipt of server %d carries %q (error %v), that server answered %q", round, k, gs, rc.Error, answer(round, k)), spec)
					} else {
						keep = append(keep, kept{fmt.Sprintf("the receipt of server %d from call %d", k, round), got, string(*got)})
					}
				}
			}
		}
		cancel()
		// a Fork returns with the first success: let the other answers of this call arrive before the next call
		time.Sleep(25 * time.Millisecond)
		for _, kp := range keep {
			if string(*kp.b) != kp.was {
				o.Fail(id, "reported-bytes-changed", fmt.Sprintf("%s read %q when it was reported; after later answers arrived it reads %q", kp.what, kp.was, *kp.b), spec)
				keep = nil
				break
			}
		}
	}
	o.ImplOnly(id, spec, true)
	o.Count("raw-replies")
}

func init() {
	// a second network that leads to other servers than "vsrv" does under the same address (as tcp and quic do)
	client.ConnFactories["vsrv2"] = func(c *client.Client, network, address string) (net.Conn, error) {
		return client.ConnFactories["vsrv"](c, "vsrv", address+"/2")
	}
}

// c17Twins: servers that share an address and differ in their network (tcp@h:p next to quic@h:p): each is a server of
// its own - one receipt each, Broadcast succeeds only if both did.  Oracle only.  case: twins|<outcome of the twin>|<order>
func c17Twins(o *common.Out, id string, twin string, twinFirst bool) {
	abstract := fmt.Sprintf("twins|%s|%v", twin, twinFirst)
	o.Begin(id, abstract)
	o.Count("servers-sharing-an-address")
	uid := atomic.AddInt64(&c17seq, 1)
	a, b := fmt.Sprintf("c17t-%d-a", uid), fmt.Sprintf("c17t-%d-b", uid)
	d1, d2 := 0, c17Slot
	if twinFirst {
		d1, d2 = c17Slot, 0
	}
	registerFake(a, &fakeServer{id: 0, calls: []string{"ok11", "ok11"}, delayMs: d1})
	registerFake(a+"/2", &fakeServer{id: 1, calls: []string{twin, twin}, delayMs: d2})
	registerFake(b, &fakeServer{id: 2, calls: []string{"ok33", "ok33"}, delayMs: 2 * c17Slot})
	defer func() { unregisterFake(a); unregisterFake(a + "/2"); unregisterFake(b) }()
	d, _ := client.NewMultipleServersDiscovery([]*client.KVPair{{Key: "vsrv@" + a}, {Key: "vsrv2@" + a}, {Key: "vsrv@" + b}})
	opt := client.DefaultOption
	opt.SerializeType = protocol.JSON
	opt.Heartbeat = false
	xc := client.NewXClient("Svc", client.Failfast, client.RandomSelect, d, opt)
	defer xc.Close()
	ctx, cancel := context.WithTimeout(context.Background(), 5*time.Second)
	defer cancel()
	var reply int
	rs, err := xc.Inform(ctx, "M", 1, &reply)
	var got []string
	for _, rc := range rs {
		rep := "-"
		if p, ok := rc.Reply.(*int); ok && p != nil && rc.Error == nil {
			rep = strconv.Itoa(*p)
		}
		got = append(got, fmt.Sprintf("%s:%s:%v", rc.Address, rep, rc.Error == nil))
	}
	sort.Strings(got)
	twinOK := strings.HasPrefix(twin, "ok")
	tw := fmt.Sprintf("%s:-:false", a)
	if twinOK {
		tw = fmt.Sprintf("%s:%s:true", a, twin[2:])
	}
	want := []string{fmt.Sprintf("%s:11:true", a), tw, fmt.Sprintf("%s:33:true", b)}
	sort.Strings(want)
	if strings.Join(got, " ") != strings.Join(want, " ") {
		o.Fail(id, "inform-receipt", fmt.Sprintf("three servers were contacted, two of them under one address on different networks; receipts %v, want %v", got, want), abstract)
	}
	if (err == nil) != twinOK {
		o.Fail(id, "inform-verdict", fmt.Sprintf("Inform returned %v (the server sharing an address: %s)", err, twin), abstract)
	}
	reply = 0
	err = xc.Broadcast(ctx, "M", 1, &reply)
	if (err == nil) != twinOK {
		o.Fail(id, "broadcast-verdict", fmt.Sprintf("Broadcast returned %v (the server sharing an address: %s)", err, twin), abstract)
	}
	o.ImplOnly(id, abstract, true)
}

type c17CloseNote struct{ ch chan struct{} }

func (p *c17CloseNote) ClientConnectionClose(conn net.Conn) error {
	select {
	case p.ch <- struct{}{}:
	default:
	}
	return nil
}

// c17AfterDrop: a first operation over three servers succeeds; then one server drops its connection while nothing is
// waiting on it, and the client has noticed; the server itself is up.  The next operation contacts every server (the
// dropped one over a new connection) and all of them answer: Broadcast / Fork succeed, Inform gives three receipts
// without error.  Oracle only.  case: afterdrop|<first op>|<second op>
func c17AfterDrop(o *common.Out, id string, op1, op2 byte) {
	abstract := fmt.Sprintf("afterdrop|%c|%c", op1, op2)
	o.Begin(id, abstract)
	o.Count("operation-after-a-dropped-connection")
	uid := atomic.AddInt64(&c17seq, 1)
	var fs []*fakeServer
	var pairs []*client.KVPair
	var addrs []string
	for i := 0; i < 3; i++ {
		addr := fmt.Sprintf("c17d-%d-s%d", uid, i)
		f := &fakeServer{id: i, fixed: fmt.Sprintf("ok%d", 10*(i+1))}
		registerFake(addr, f)
		fs, addrs = append(fs, f), append(addrs, addr)
		pairs = append(pairs, &client.KVPair{Key: "vsrv@" + addr})
	}
	defer func() {
		for _, a := range addrs {
			unregisterFake(a)
		}
	}()
	d, _ := client.NewMultipleServersDiscovery(pairs)
	opt := client.DefaultOption
	opt.SerializeType = protocol.JSON
	opt.Heartbeat = false
	xc := client.NewXClient("Svc", client.Failfast, client.RandomSelect, d, opt)
	defer xc.Close()
	note := &c17CloseNote{ch: make(chan struct{}, 8)}
	pc := client.NewPluginContainer()
	pc.Add(note)
	xc.SetPlugins(pc)
	run := func(op byte) string {
		ctx, cancel := context.WithTimeout(context.Background(), 5*time.Second)
		defer cancel()
		var reply int
		switch op {
		case 'B':
			if err := xc.Broadcast(ctx, "M", 1, &reply); err != nil {
				return "Broadcast returned " + err.Error()
			}
		case 'F':
			if err := xc.Fork(ctx, "M", 1, &reply); err != nil {
				return "Fork returned " + err.Error()
			}
		default:
			rs, err := xc.Inform(ctx, "M", 1, &reply)
			if err != nil || len(rs) != 3 {
				return fmt.Sprintf("Inform returned %d receipts and %v", len(rs), err)
			}
			for _, rc := range rs {
				if rc.Error != nil {
					return fmt.Sprintf("the receipt of %s carries %v", rc.Address, rc.Error)
				}
			}
		}
		return ""
	}
	if bad := run(op1); bad != "" {
		o.Fail(id, "rig", "the first operation, every server up: "+bad, abstract)
		return
	}
	// server 1 drops its connections (it stays up); the client's reader notices
	fs[1].mu.Lock()
	conns := fs[1].conns
	fs[1].conns = nil
	fs[1].mu.Unlock()
	for _, c := range conns {
		c.Close()
	}
	select {
	case <-note.ch:
	case <-time.After(3 * time.Second):
		o.ImplOnly(id, abstract, false) // nothing was noticed: nothing to look at
		return
	}
	if bad := run(op2); bad != "" {
		sig := map[byte]string{'B': "broadcast-verdict", 'F': "fork-verdict", 'I': "inform-receipt"}[op2]
		o.Fail(id, sig, "every server is up and answers (one of them had dropped an idle connection before): "+bad, abstract)
	}
	o.ImplOnly(id, abstract, true)
}

func runC17(r *common.Rand, tier string, o *common.Out, replay string) {
	if strings.HasPrefix(replay, "afterdrop|") {
		p := strings.Split(replay, "|")
		c17AfterDrop(o, "replay", p[1][0], p[2][0])
		return
	}
	if replay == "" {
		k := 0
		for _, op1 := range []byte{'B', 'F', 'I'} {
			for _, op2 := range []byte{'B', 'I', 'F'} {
				k++
				c17AfterDrop(o, fmt.Sprintf("ad%d", k), op1, op2)
			}
		}
	}
	if strings.HasPrefix(replay, "twins|") {
		p := strings.Split(replay, "|")
		c17Twins(o, "replay", p[1], p[2] == "true")
		return
	}
	if replay == "" {
		for i, tw := range []string{"ok22", "svc", "lost", "ok11"} {
			c17Twins(o, fmt.Sprintf("tw%da", i), tw, false)
			c17Twins(o, fmt.Sprintf("tw%db", i), tw, true)
		}
	}
	if strings.HasPrefix(replay, "raw ") {
		c17Raw(o, "replay", replay)
		return
	}
	if strings.HasPrefix(replay, "rich ") {
		c17Structured(o, "replay", replay)
		return
	}
	parse := func(s string) (string, []string, []int) {
		f := strings.Fields(s)
		v := strings.Split(f[1], ",")
		var order []int
		for _, t := range strings.Split(f[2], ",") {
			n, _ := strconv.Atoi(t)
			order = append(order, n)
		}
		return f[0], v, order
	}
	if replay != "" {
		op, v, order := parse(replay)
		obs, fails := c17Run(strings.TrimSuffix(op, "s"), v, order, strings.HasSuffix(op, "s"))
		for _, f := range fails {
			p := strings.SplitN(f, "|", 2)
			o.Fail("replay", p[0], p[1], replay)
		}
		o.Case("replay", strings.Replace(replay, op+" ", c17Base(op)+" ", 1), obs, true)
		return
	}
	outs := []string{"ok", "svc", "lost", "slow"}
	type job struct {
		op    string
		v     []string
		order []int
	}
	var jobs []job
	maxN := 3
	if tier == "thorough" {
		maxN = 4
	}
	for n := 1; n <= maxN; n++ {
		total := 1
		for i := 0; i < n; i++ {
			total *= len(outs)
		}
		for code := 0; code < total; code++ {
			x := code
			v := make([]string, n)
			for i := 0; i < n; i++ {
				v[i] = outs[x%len(outs)]
				x /= len(outs)
				if v[i] == "ok" {
					v[i] = "ok" + strconv.Itoa(10*(i+1)+n)
				}
			}
			for pi, perm := range permutations(n) {
				// slow servers complete last by construction
				valid := true
				seenSlow := false
				for _, i := range perm {
					if v[i] == "slow" {
						seenSlow = true
					} else if seenSlow {
						valid = false
					}
				}
				if !valid {
					continue
				}
				if tier != "thorough" && n == 3 && (code+pi)%3 != 0 {
					continue
				}
				for _, op := range []string{"B", "F", "I"} {
					jobs = append(jobs, job{op, v, perm})
				}
				anyOK := false
				for _, x := range v {
					if strings.HasPrefix(x, "ok") {
						anyOK = true
					}
				}
				if !anyOK || (code+pi)%4 == 1 {
					// every server fails (or a sample of the others): the same through clients whose Close takes a while
					for _, op := range []string{"Bw", "Fw", "Iw"} {
						jobs = append(jobs, job{op, v, perm})
					}
				}
				if n >= 2 && (code+pi)%2 == 0 {
					// the same with the Sticky option and a sticky server established by an earlier call
					for _, op := range []string{"Fs", "Is"} {
						jobs = append(jobs, job{op, v, perm})
					}
				}
			}
		}
	}
	// raw-bytes replies held by the caller across later calls (oracle only)
	ri := 0
	for _, ops := range []string{"III", "FIF", "BIB", "FFI", "IBF"} {
		for n := 2; n <= 3; n++ {
			ri++
			c17Raw(o, fmt.Sprintf("b%d", ri), fmt.Sprintf("raw %s|%d", ops, n))
		}
	}
	// consecutive calls that share one structured reply variable (oracle only)
	si := 0
	for _, ops := range []string{"II", "IF", "IB", "FI", "BI", "FF", "BB", "FB"} {
		for n := 2; n <= 3; n++ {
			for mask := 0; mask < 1<<n; mask += 1 + si%2 {
				si++
				c17Structured(o, fmt.Sprintf("r%d", si), fmt.Sprintf("rich %s|%d|%d", ops, n, mask))
			}
		}
	}
	type resT struct {
		obs   string
		fails []string
	}
	res := make([]resT, len(jobs))
	sem := make(chan struct{}, 64)
	for i := range jobs {
		sem <- struct{}{}
		go func(i int) {
			ob, fl := c17Run(strings.TrimSuffix(jobs[i].op, "s"), jobs[i].v, jobs[i].order, strings.HasSuffix(jobs[i].op, "s"))
			res[i] = resT{ob, fl}
			<-sem
		}(i)
	}
	for k := 0; k < cap(sem); k++ {
		sem <- struct{}{}
	}
	for i, j := range jobs {
		os := make([]string, len(j.order))
		for k, x := range j.order {
			os[k] = strconv.Itoa(x)
		}
		line := fmt.Sprintf("%s %s %s", j.op, strings.Join(j.v, ","), strings.Join(os, ","))
		id := fmt.Sprintf("m%d", i)
		o.Begin(id, line)
		for _, f := range res[i].fails {
			p := strings.SplitN(f, "|", 2)
			o.Fail(id, p[0], p[1], line)
		}
		o.Case(id, fmt.Sprintf("%s %s %s", c17Base(j.op), strings.Join(j.v, ","), strings.Join(os, ",")), res[i].obs, len(j.v) >= 2)
		o.Count("op=" + j.op)
		o.Count(fmt.Sprintf("servers=%d", len(j.v)))
	}
}
