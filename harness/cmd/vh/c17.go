package main

import (
	"context"
	"fmt"
	"sort"
	"strconv"
	"strings"
	"sync/atomic"
	"time"

	"github.com/smallnest/rpcx/client"
	"github.com/smallnest/rpcx/protocol"

	"verifharness/internal/common"
)

func init() { props["C17"] = runC17 }

const c17Slot = 35 // ms between scripted completions

var c17seq int64

// run one of B/F/I against n scripted servers; v[i] in {ok<r>, svc, lost, slow}; order = completion order
func c17Run(op string, v []string, order []int, sticky bool) (obs string, fails []string) {
	uid := atomic.AddInt64(&c17seq, 1)
	n := len(v)
	rank := make([]int, n)
	for pos, i := range order {
		rank[i] = pos
	}
	hasSlow := false
	var pairs []*client.KVPair
	var addrs []string
	for i := 0; i < n; i++ {
		addr := fmt.Sprintf("c17-%d-s%d", uid, i)
		act := v[i]
		if act == "slow" {
			act = "silent"
			hasSlow = true
		}
		fs := &fakeServer{id: i, calls: []string{act}, delayMs: rank[i] * c17Slot}
		registerFake(addr, fs)
		addrs = append(addrs, addr)
		pairs = append(pairs, &client.KVPair{Key: "vsrv@" + addr})
	}
	defer func() {
		for _, a := range addrs {
			unregisterFake(a)
		}
	}()
	d, _ := client.NewMultipleServersDiscovery(pairs)
	opt := client.DefaultOption
	opt.SerializeType = protocol.JSON
	opt.Heartbeat = false
	opt.Sticky = sticky
	xc := client.NewXClient("Svc", client.Failfast, client.RandomSelect, d, opt)
	defer xc.Close()
	ctx := context.Background()
	if sticky {
		// an earlier ordinary call has made one of the servers the client's sticky server
		var w int
		xc.Call(ctx, "warmup", 1, &w)
	}
	if hasSlow {
		// slow servers complete last, with the deadline error; everyone else has long answered
		var cancel context.CancelFunc
		ctx, cancel = context.WithTimeout(ctx, time.Duration((n+2)*c17Slot+300)*time.Millisecond)
		defer cancel()
	}
	var reply int
	class := func(err error) string {
		switch {
		case err == nil:
			return "nil"
		case strings.HasPrefix(err.Error(), "svc-error-from-"):
			return "svc"
		case err == context.DeadlineExceeded || strings.Contains(err.Error(), "deadline"):
			return "slow"
		default:
			return "lost"
		}
	}
	anyOK, allOK := false, true
	okReplies := map[int]bool{}
	// which of several successful servers' replies the caller ends up with depends on their completion order,
	// forced here by delays only: "S" = the reply of a server that succeeded
	showReply := func(ok bool) string {
		if !ok {
			return "*"
		}
		if okReplies[reply] {
			return "S"
		}
		return strconv.Itoa(reply)
	}
	for _, o := range v {
		if strings.HasPrefix(o, "ok") {
			anyOK = true
			r, _ := strconv.Atoi(o[2:])
			okReplies[r] = true
		} else {
			allOK = false
		}
	}
	switch op {
	case "B":
		err := xc.Broadcast(ctx, "M", 1, &reply)
		obs = fmt.Sprintf("%s reply=%s", map[bool]string{true: "nil", false: "err"}[err == nil], showReply(err == nil))
		if (err == nil) != allOK {
			fails = append(fails, fmt.Sprintf("broadcast-verdict|Broadcast returned %v for outcomes %v", err, v))
		}
		if err == nil && !okReplies[reply] {
			fails = append(fails, fmt.Sprintf("reply-not-from-a-success|Broadcast reported success with reply %d, which no successful server produced (%v)", reply, v))
		}
	case "F":
		err := xc.Fork(ctx, "M", 1, &reply)
		obs = fmt.Sprintf("%s reply=%s", map[bool]string{true: "nil", false: "err"}[err == nil], showReply(err == nil))
		if (err == nil) != anyOK {
			fails = append(fails, fmt.Sprintf("fork-verdict|Fork returned %v for outcomes %v completing in order %v", err, v, order))
		}
		if err == nil && !okReplies[reply] {
			fails = append(fails, fmt.Sprintf("reply-not-from-a-success|Fork reported success with reply %d, which no successful server produced (%v)", reply, v))
		}
	default:
		rs, err := xc.Inform(ctx, "M", 1, &reply)
		var parts []string
		seen := map[string]bool{}
		for _, r := range rs {
			idx := strings.LastIndex(r.Address, "-s")
			id := r.Address[idx+2:]
			rep := "-"
			if r.Error == nil {
				if p, ok := r.Reply.(*int); ok && p != nil {
					rep = strconv.Itoa(*p)
				}
			}
			parts = append(parts, fmt.Sprintf("s%s:%s:%s", id, rep, class(r.Error)))
			seen[id] = true
			i, _ := strconv.Atoi(id)
			want := v[i]
			if strings.HasPrefix(want, "ok") {
				if r.Error != nil {
					fails = append(fails, fmt.Sprintf("inform-receipt|receipt of server %d carries error %v although it answered successfully", i, r.Error))
				} else if rep != want[2:] {
					fails = append(fails, fmt.Sprintf("inform-receipt|receipt of server %d carries reply %s, it answered %s", i, rep, want[2:]))
				}
			} else if r.Error == nil {
				fails = append(fails, fmt.Sprintf("inform-receipt|receipt of server %d has a nil error although it %s", i, want))
			}
		}
		if len(rs) != n {
			fails = append(fails, fmt.Sprintf("inform-receipt|%d receipts for %d contacted servers", len(rs), n))
		}
		sort.Strings(parts)
		obs = fmt.Sprintf("%s [%s] reply=%s", map[bool]string{true: "nil", false: "err"}[err == nil], strings.Join(parts, ","), showReply(err == nil))
		if (err == nil) != allOK {
			fails = append(fails, fmt.Sprintf("inform-verdict|Inform returned %v for outcomes %v", err, v))
		}
	}
	return obs, fails
}

func runC17(r *common.Rand, tier string, o *common.Out, replay string) {
	parse := func(s string) (string, []string, []int) {
		f := strings.Fields(s)
		v := strings.Split(f[1], ",")
		var order []int
		for _, t := range strings.Split(f[2], ",") {
			n, _ := strconv.Atoi(t)
			order = append(order, n)
		}
		return f[0], v, order
	}
	if replay != "" {
		op, v, order := parse(replay)
		obs, fails := c17Run(strings.TrimSuffix(op, "s"), v, order, strings.HasSuffix(op, "s"))
		for _, f := range fails {
			p := strings.SplitN(f, "|", 2)
			o.Fail("replay", p[0], p[1], replay)
		}
		o.Case("replay", strings.Replace(replay, op+" ", strings.TrimSuffix(op, "s")+" ", 1), obs, true)
		return
	}
	outs := []string{"ok", "svc", "lost", "slow"}
	type job struct {
		op    string
		v     []string
		order []int
	}
	var jobs []job
	maxN := 3
	if tier == "thorough" {
		maxN = 4
	}
	for n := 1; n <= maxN; n++ {
		total := 1
		for i := 0; i < n; i++ {
			total *= len(outs)
		}
		for code := 0; code < total; code++ {
			x := code
			v := make([]string, n)
			for i := 0; i < n; i++ {
				v[i] = outs[x%len(outs)]
				x /= len(outs)
				if v[i] == "ok" {
					v[i] = "ok" + strconv.Itoa(10*(i+1)+n)
				}
			}
			for pi, perm := range permutations(n) {
				// slow servers complete last by construction
				valid := true
				seenSlow := false
				for _, i := range perm {
					if v[i] == "slow" {
						seenSlow = true
					} else if seenSlow {
						valid = false
					}
				}
				if !valid {
					continue
				}
				if tier != "thorough" && n == 3 && (code+pi)%3 != 0 {
					continue
				}
				for _, op := range []string{"B", "F", "I"} {
					jobs = append(jobs, job{op, v, perm})
				}
				if n >= 2 && (code+pi)%2 == 0 {
					// the same with the Sticky option and a sticky server established by an earlier call
					for _, op := range []string{"Fs", "Is"} {
						jobs = append(jobs, job{op, v, perm})
					}
				}
			}
		}
	}
	type resT struct {
		obs   string
		fails []string
	}
	res := make([]resT, len(jobs))
	sem := make(chan struct{}, 64)
	for i := range jobs {
		sem <- struct{}{}
		go func(i int) {
			ob, fl := c17Run(strings.TrimSuffix(jobs[i].op, "s"), jobs[i].v, jobs[i].order, strings.HasSuffix(jobs[i].op, "s"))
			res[i] = resT{ob, fl}
			<-sem
		}(i)
	}
	for k := 0; k < cap(sem); k++ {
		sem <- struct{}{}
	}
	for i, j := range jobs {
		os := make([]string, len(j.order))
		for k, x := range j.order {
			os[k] = strconv.Itoa(x)
		}
		line := fmt.Sprintf("%s %s %s", j.op, strings.Join(j.v, ","), strings.Join(os, ","))
		id := fmt.Sprintf("m%d", i)
		o.Begin(id, line)
		for _, f := range res[i].fails {
			p := strings.SplitN(f, "|", 2)
			o.Fail(id, p[0], p[1], line)
		}
		o.Case(id, fmt.Sprintf("%s %s %s", strings.TrimSuffix(j.op, "s"), strings.Join(j.v, ","), strings.Join(os, ",")), res[i].obs, len(j.v) >= 2)
		o.Count("op=" + j.op)
		o.Count(fmt.Sprintf("servers=%d", len(j.v)))
	}
}
