package main

import (
	"context"
	"errors"
	"fmt"
	"net"
	"strconv"
	"strings"
	"sync"
	"sync/atomic"
	"time"

	"github.com/smallnest/rpcx/client"
	"github.com/smallnest/rpcx/protocol"

	"verifharness/internal/common"
)

func init() { props["C10"] = runC10 }

// a deterministic round-robin selector (client.SelectByUser): order s0, s1, ... from a given cursor
type rrSel struct {
	servers []string
	i       int
}

func (s *rrSel) Select(ctx context.Context, servicePath, serviceMethod string, args interface{}) string {
	if len(s.servers) == 0 {
		return ""
	}
	k := s.i % len(s.servers)
	s.i = k + 1
	return s.servers[k]
}
func (s *rrSel) UpdateServer(servers map[string]string) {}

type c10case struct {
	mode    string // fast try over
	retries int
	rr      int
	dials   []string // per server: string of 0/1
	calls   [][]string
}

func (c c10case) model() string {
	var srvs []string
	for i := range c.dials {
		d, cl := c.dials[i], strings.Join(c.calls[i], ",")
		if d == "" {
			d = "-"
		}
		if cl == "" {
			cl = "-"
		}
		srvs = append(srvs, d+"/"+cl)
	}
	s := strings.Join(srvs, ";")
	if s == "" {
		s = "-"
	}
	return fmt.Sprintf("%s %d %d %s", c.mode, c.retries, c.rr, s)
}

func parseC10(s string) c10case {
	f := strings.Fields(s)
	c := c10case{mode: f[0]}
	c.retries, _ = strconv.Atoi(f[1])
	c.rr, _ = strconv.Atoi(f[2])
	if f[3] != "-" {
		for _, sv := range strings.Split(f[3], ";") {
			p := strings.SplitN(sv, "/", 2)
			d := p[0]
			if d == "-" {
				d = ""
			}
			c.dials = append(c.dials, d)
			var cl []string
			if p[1] != "-" {
				cl = strings.Split(p[1], ",")
			}
			c.calls = append(c.calls, cl)
		}
	}
	return c
}

// in every other case whose script refuses a dial, the refusal takes the form of a connect timeout
func c10TimeoutDials(cs c10case) bool {
	n := 0
	for _, d := range cs.dials {
		n += len(d)
	}
	return (n+cs.retries+len(cs.mode))%2 == 0
}

func c10Sticky(cs c10case) bool {
	n := cs.rr
	for _, c := range cs.calls {
		n += len(c)
	}
	return n%2 == 1
}

func c10ErrClass(err error) string {
	if _, ok := err.(*net.OpError); ok {
		return "dial" // a connect timeout is a failed dial, not the caller's deadline
	}
	switch {
	case err == nil:
		return "nil"
	case errors.Is(err, context.Canceled):
		return "ctx"
	case errors.Is(err, context.DeadlineExceeded):
		return "dl"
	case errors.Is(err, client.ErrXClientNoServer):
		return "noserver"
	case errors.Is(err, client.ErrServerUnavailable):
		return "unavailable"
	case strings.HasPrefix(err.Error(), "svc-error-from-"):
		return "svc"
	case func() bool {
		se, ok := err.(client.ServiceError)
		return ok && se.IsServiceError() && err.Error() == ""
	}():
		return "svc" // a service error with an empty text
	case strings.Contains(err.Error(), "vsrv: connection refused"):
		return "dial"
	default:
		return "lost"
	}
}

var c10seq int64

// a context whose deadline passes when the harness says so (and which ends with its parent)
type deadlineCtx struct {
	context.Context
	once    sync.Once
	expired chan struct{}
	done    chan struct{}
	mu      sync.Mutex
	err     error
}

func newDeadlineCtx(parent context.Context) *deadlineCtx {
	c := &deadlineCtx{Context: parent, expired: make(chan struct{}), done: make(chan struct{})}
	go func() {
		select {
		case <-parent.Done():
			c.mu.Lock()
			c.err = parent.Err()
			c.mu.Unlock()
		case <-c.expired:
			c.mu.Lock()
			c.err = context.DeadlineExceeded
			c.mu.Unlock()
		}
		close(c.done)
	}()
	return c
}
func (c *deadlineCtx) expire()               { c.once.Do(func() { close(c.expired) }) }
func (c *deadlineCtx) Done() <-chan struct{} { return c.done }
func (c *deadlineCtx) Err() error {
	select {
	case <-c.done:
		c.mu.Lock()
		defer c.mu.Unlock()
		return c.err
	default:
		return nil
	}
}
func (c *deadlineCtx) Deadline() (time.Time, bool) { return time.Now().Add(time.Hour), true }

func c10Run(cs c10case, raw bool) (obs string, fails []string) {
	uid := atomic.AddInt64(&c10seq, 1)
	log := &attemptLog{}
	var addrs, keys []string
	var cancel context.CancelFunc
	ctx, cancel0 := context.WithCancel(context.Background())
	cancel = cancel0
	hasDL := false
	for i := range cs.dials {
		for _, a := range cs.calls[i] {
			if a == "dl" {
				hasDL = true
			}
		}
	}
	var dl *deadlineCtx
	if hasDL {
		// the deadline "passes" when the request scripted dl has arrived at its server, not after some milliseconds:
		// a timer could fire before the request is even sent on a loaded machine
		dl = newDeadlineCtx(ctx)
		ctx = dl
	}
	defer cancel()
	for i := range cs.dials {
		addr := fmt.Sprintf("c10-%d-s%d", uid, i)
		var d []bool
		for _, ch := range cs.dials[i] {
			d = append(d, ch == '1')
		}
		fs := &fakeServer{id: i, dials: d, calls: append([]string{}, cs.calls[i]...), log: log, onCtx: func() { cancel() }, timeout: c10TimeoutDials(cs)}
		if dl != nil {
			fs.onDL = dl.expire
		}
		registerFake(addr, fs)
		addrs = append(addrs, addr)
		keys = append(keys, "vsrv@"+addr)
	}
	defer func() {
		for _, a := range addrs {
			unregisterFake(a)
		}
	}()
	var pairs []*client.KVPair
	for _, k := range keys {
		pairs = append(pairs, &client.KVPair{Key: k})
	}
	d, _ := client.NewMultipleServersDiscovery(pairs)
	opt := client.DefaultOption
	opt.Retries = cs.retries
	opt.SerializeType = protocol.JSON
	opt.Heartbeat = false
	// every other script runs on a client with Option.Sticky: within ONE call of a fresh client that changes nothing -
	// the server a failed attempt used is forgotten, the selector is asked again
	opt.Sticky = c10Sticky(cs)
	fm := map[string]client.FailMode{"fast": client.Failfast, "try": client.Failtry, "over": client.Failover}[cs.mode]
	xc := client.NewXClient("Svc", fm, client.SelectByUser, d, opt)
	defer xc.Close()
	xc.SetSelector(&rrSel{servers: keys, i: cs.rr})
	res := ""
	done := make(chan struct{})
	go func() {
		defer close(done)
		if raw {
			m := protocol.NewMessage()
			m.SetMessageType(protocol.Request)
			m.SetSerializeType(protocol.JSON)
			m.SetSeq(uint64(900000 + uid))
			m.ServicePath, m.ServiceMethod = "Svc", "M"
			m.Payload = []byte("1")
			_, payload, err := xc.SendRaw(ctx, m)
			if err == nil {
				n, _ := strconv.Atoi(string(payload))
				res = "ok:" + strconv.Itoa(n)
			} else {
				res = c10ErrClass(err)
			}
		} else {
			var reply int
			err := xc.Call(ctx, "M", 1, &reply)
			if err == nil {
				res = "ok:" + strconv.Itoa(reply)
			} else {
				res = c10ErrClass(err)
			}
		}
	}()
	select {
	case <-done:
	case <-time.After(5 * time.Second):
		fails = append(fails, "hang|the call did not return within 5 s")
		res = "hang"
	}
	att := log.snapshot()
	obs = fmt.Sprintf("[%s] %s", strings.Join(att, ","), res)
	// ---- property oracle (read directly off the logs) ----
	max := cs.retries + 1
	if cs.mode == "fast" {
		max = 1
	}
	if len(att) > max {
		fails = append(fails, fmt.Sprintf("too-many-attempts|%d requests were delivered to servers, the mode allows %d", len(att), max))
	}
	lastOK := ""
	if len(att) > 0 {
		last := att[len(att)-1]
		if k := strings.Index(last, ":ok"); k >= 0 {
			lastOK = last[k+3:]
		}
	}
	if strings.HasPrefix(res, "ok:") != (lastOK != "") {
		fails = append(fails, fmt.Sprintf("untruthful-result|the call returned %q but the attempt it ended with is %v", res, att))
	} else if lastOK != "" && res != "ok:"+lastOK {
		fails = append(fails, fmt.Sprintf("wrong-reply|the call returned %q, the last attempt answered %s", res, lastOK))
	}
	for i, a := range att[:maxInt(0, len(att)-1)] {
		if !strings.HasSuffix(a, ":lost") {
			fails = append(fails, fmt.Sprintf("attempt-after-final|attempt %d (%s) should have ended the call, yet %d more followed", i, a, len(att)-1-i))
			break
		}
	}
	// under round-robin selection fail-over goes to a different server whenever more than one is available (scripts in
	// which no dial is refused: every selection then shows up as a delivered request)
	if cs.mode == "over" && len(cs.dials) >= 2 {
		allDial := true
		for _, d := range cs.dials {
			if strings.Contains(d, "0") {
				allDial = false
			}
		}
		for i := 1; allDial && i < len(att); i++ {
			a, b := strings.SplitN(att[i-1], ":", 2)[0], strings.SplitN(att[i], ":", 2)[0]
			if a == b {
				fails = append(fails, fmt.Sprintf("failover-same-server|after the attempt on %s failed, fail-over sent the request to %s again although %d servers are available (%v)", a, b, len(cs.dials), att))
				break
			}
		}
	}
	// fail-try re-sends and fail-over asks the selector again: a call that ends with a connection-level failure (a
	// refused or timed-out dial, a lost connection) while its context is alive has used all of its retries+1 tries
	if (cs.mode == "try" || cs.mode == "over") && (res == "dial" || res == "lost") {
		tries := len(att)
		for i, a := range addrs {
			fakeMu.Lock()
			fs := fakeSrvs[a]
			fakeMu.Unlock()
			if fs == nil {
				continue
			}
			fs.mu.Lock()
			n := fs.nDials
			fs.mu.Unlock()
			for k := 0; k < n && k < len(cs.dials[i]); k++ {
				if cs.dials[i][k] == '0' {
					tries++
				}
			}
		}
		if tries < cs.retries+1 {
			fails = append(fails, fmt.Sprintf("gave-up-early|mode %s, %d retries: the call ended with a connection-level failure (%s) after %d of its %d tries (requests delivered: %v), its context still alive", cs.mode, cs.retries, res, tries, cs.retries+1, att))
		}
	}
	if cs.mode == "try" {
		for _, a := range att {
			if strings.SplitN(a, ":", 2)[0] != strings.SplitN(att[0], ":", 2)[0] {
				fails = append(fails, "failtry-changed-server|fail-try re-sent to a different server: "+strings.Join(att, ","))
				break
			}
		}
	}
	return obs, fails
}

// fail-backup: the schedule is forced through the scripted servers, which report every dial and every
// arriving request and hold their answers until released.  mode = "backup<early><firstPrimary>".
func c10RunBackup(cs c10case) (obs string, fails []string) {
	uid := atomic.AddInt64(&c10seq, 1)
	early, firstPrimary := cs.mode[6] == '1', cs.mode[7] == '1'
	log := &attemptLog{}
	ctrl := &bkCtrl{ev: make(chan bkEvent, 64)}
	var addrs, keys []string
	for i := range cs.dials {
		addr := fmt.Sprintf("c10-%d-s%d", uid, i)
		var d []bool
		for _, ch := range cs.dials[i] {
			d = append(d, ch == '1')
		}
		fs := &fakeServer{id: i, dials: d, calls: append([]string{}, cs.calls[i]...), log: log, ctrl: ctrl, timeout: c10TimeoutDials(cs)}
		registerFake(addr, fs)
		addrs = append(addrs, addr)
		keys = append(keys, "vsrv@"+addr)
	}
	defer func() {
		for _, a := range addrs {
			unregisterFake(a)
		}
	}()
	var pairs []*client.KVPair
	for _, k := range keys {
		pairs = append(pairs, &client.KVPair{Key: k})
	}
	d, _ := client.NewMultipleServersDiscovery(pairs)
	opt := client.DefaultOption
	opt.SerializeType = protocol.JSON
	opt.Heartbeat = false
	opt.BackupLatency = 150 * time.Millisecond // long enough for an immediate answer to win against the timer under load
	xc := client.NewXClient("Svc", client.Failbackup, client.SelectByUser, d, opt)
	defer xc.Close()
	xc.SetSelector(&rrSel{servers: keys, i: cs.rr})
	res := ""
	done := make(chan struct{})
	go func() {
		defer close(done)
		reply := -1
		err := xc.Call(context.Background(), "M", 1, &reply)
		if err == nil {
			res = "ok:" + strconv.Itoa(reply)
		} else {
			res = c10ErrClass(err)
		}
	}()
	returned := false
	// next event of the schedule, or the return of the call
	next := func() (bkEvent, bool) {
		if returned {
			return bkEvent{}, false
		}
		select {
		case e := <-ctrl.ev:
			return e, true
		case <-done:
			returned = true
			return bkEvent{}, false
		case <-time.After(3 * time.Second):
			fails = append(fails, "hang|neither a dial, nor a request, nor the return of the call within 3 s")
			returned = true
			return bkEvent{}, false
		}
	}
	var held []bkEvent
	release := func(e bkEvent) { close(e.rel) }
	waitReturn := func() {
		if returned {
			return
		}
		select {
		case <-done:
		case <-time.After(3 * time.Second):
			fails = append(fails, "hang|the call did not return within 3 s of the deciding answer")
			res = "hang"
		}
		returned = true
	}
	// one xClient.Go as the servers see it: a dial (unless the client is cached) and, if it is accepted, the request
	goAttempt := func() (bkEvent, bool) {
		e, ok := next()
		if !ok {
			return e, false
		}
		if e.kind == "dial" {
			if !e.ok {
				return e, false
			}
			e, ok = next()
			if !ok || e.kind != "arrive" {
				return e, false
			}
		}
		return e, e.kind == "arrive"
	}
	// the selection at the top of Call: a dial only
	if _, ok := next(); ok {
		a1, sent1 := goAttempt()
		if sent1 && early {
			release(a1)
			waitReturn()
		} else {
			a2, sent2 := goAttempt()
			switch {
			case sent1 && sent2:
				if firstPrimary {
					release(a1)
					waitReturn()
					held = append(held, a2)
				} else {
					release(a2)
					waitReturn()
					held = append(held, a1)
				}
			case sent1:
				release(a1)
				waitReturn()
			case sent2:
				release(a2)
				waitReturn()
			default:
				waitReturn()
			}
		}
	}
	waitReturn()
	for _, e := range held {
		release(e)
	}
	att := log.snapshot()
	obs = fmt.Sprintf("[%s] %s", strings.Join(att, ","), res)
	// ---- property oracle ----
	if len(att) > 2 {
		fails = append(fails, fmt.Sprintf("too-many-attempts|%d requests were delivered in fail-backup mode", len(att)))
	}
	if strings.HasPrefix(res, "ok:") {
		found := false
		for _, a := range att {
			if strings.HasSuffix(a, ":ok"+res[3:]) {
				found = true
			}
		}
		if !found {
			fails = append(fails, fmt.Sprintf("untruthful-result|the call returned %q but no delivered request was answered with that reply: %v", res, att))
		}
	}
	if len(att) == 1 && strings.Contains(att[0], ":ok") && !strings.HasPrefix(res, "ok:") && res != "hang" {
		fails = append(fails, fmt.Sprintf("untruthful-result|the only delivered request (%s) was answered successfully, yet the call returned %q", att[0], res))
	}
	if len(att) == 0 && strings.HasPrefix(res, "ok") {
		fails = append(fails, "untruthful-result|success although no request was delivered")
	}
	return obs, fails
}

func maxInt(a, b int) int {
	if a > b {
		return a
	}
	return b
}

// a client-side PostCall plugin that parks the call whose argument is armed (it has failed and is about to clean up)
type parkPostCall struct {
	mu      sync.Mutex
	armed   int
	entered chan struct{}
	release chan struct{}
}

func (p *parkPostCall) PostCall(ctx context.Context, sp, sm string, args interface{}, reply interface{}, err error) error {
	n, _ := args.(int)
	p.mu.Lock()
	hit := p.armed != 0 && n == p.armed
	if hit {
		p.armed = 0
	}
	p.mu.Unlock()
	if hit {
		close(p.entered)
		<-p.release
	}
	return err
}

// c10LateCleanup: a call fails on a connection that is then lost; before it gets to clean up after itself another call
// has already replaced the dead cached connection with a fresh one and is waiting for its answer on it.  The late
// clean-up concerns the connection that failed, not whatever is cached now: the other call is answered.
// Oracle only.  case: late|<mode>
func c10LateCleanup(o *common.Out, id, mode string) {
	abstract := "late|" + mode
	o.Begin(id, abstract)
	o.Count("late-cleanup-of-a-replaced-connection")
	uid := atomic.AddInt64(&c10seq, 1)
	addr := fmt.Sprintf("c10late-%d", uid)
	ctrl := &bkCtrl{ev: make(chan bkEvent, 16)}
	log := &attemptLog{}
	fs := &fakeServer{id: 0, dials: []bool{true, true, true}, calls: []string{"lost", "ok7", "ok8"}, log: log, ctrl: ctrl}
	registerFake(addr, fs)
	defer unregisterFake(addr)
	d, _ := client.NewMultipleServersDiscovery([]*client.KVPair{{Key: "vsrv@" + addr}})
	opt := client.DefaultOption
	opt.Retries = 0
	opt.SerializeType = protocol.JSON
	opt.Heartbeat = false
	fm := map[string]client.FailMode{"fast": client.Failfast, "try": client.Failtry, "over": client.Failover}[mode]
	xc := client.NewXClient("Svc", fm, client.RoundRobin, d, opt)
	defer xc.Close()
	pp := &parkPostCall{armed: 41, entered: make(chan struct{}), release: make(chan struct{})}
	pc := client.NewPluginContainer()
	pc.Add(pp)
	xc.SetPlugins(pc)
	call := func(arg int, out chan string) {
		var reply int
		ctx, cancel := context.WithTimeout(context.Background(), 4*time.Second)
		defer cancel()
		if err := xc.Call(ctx, "M", arg, &reply); err != nil {
			out <- c10ErrClass(err)
		} else {
			out <- "ok:" + strconv.Itoa(reply)
		}
	}
	arrive := func(what string) (bkEvent, bool) {
		for {
			select {
			case e := <-ctrl.ev:
				if e.kind == "arrive" {
					return e, true
				}
			case <-time.After(3 * time.Second):
				o.Fail(id, "rig", what+" never arrived at the server", abstract)
				return bkEvent{}, false
			}
		}
	}
	rb, rc := make(chan string, 1), make(chan string, 1)
	go call(41, rb) // B: its connection is lost while it waits
	eb, ok := arrive("call B")
	if !ok {
		return
	}
	close(eb.rel) // the server drops the connection
	select {
	case <-pp.entered: // B has failed and stands right before its clean-up
	case <-time.After(3 * time.Second):
		o.Fail(id, "rig", "call B never returned from the lost connection", abstract)
		close(pp.release)
		return
	}
	go call(42, rc) // C: replaces the dead connection, its request waits at the server
	ec, ok := arrive("call C")
	if !ok {
		close(pp.release)
		return
	}
	close(pp.release) // B cleans up now
	resB := <-rb
	time.Sleep(2 * time.Millisecond)
	close(ec.rel) // the server answers C
	var resC string
	select {
	case resC = <-rc:
	case <-time.After(5 * time.Second):
		resC = "hang"
	}
	if resC != "ok:7" {
		o.Fail(id, "untruthful-result", fmt.Sprintf("call C was sent on a fresh connection and answered 7 by the server; it returned %q (call B, whose own connection had been lost earlier, returned %q and cleaned up in between)", resC, resB), abstract)
	}
	o.ImplOnly(id, abstract, true)
}

// c10BackupSlowDial: fail-backup towards a server whose connection takes longer to establish than the backup latency:
// the latency counts from the moment the first request has been sent, so an answer that comes right away means no
// second request.  Oracle only.  case: slowdial|<answer delay ms>
func c10BackupSlowDial(o *common.Out, id string, answerAfter int) {
	abstract := fmt.Sprintf("slowdial|%d", answerAfter)
	o.Begin(id, abstract)
	o.Count("backup-after-a-slow-dial")
	uid := atomic.AddInt64(&c10seq, 1)
	const latency = 900 * time.Millisecond
	ctrl := &bkCtrl{ev: make(chan bkEvent, 16)}
	log := &attemptLog{}
	var keys, addrs []string
	for i := 0; i < 2; i++ {
		addr := fmt.Sprintf("c10sd-%d-s%d", uid, i)
		fs := &fakeServer{id: i, calls: []string{fmt.Sprintf("ok%d", 7+i)}, log: log, ctrl: ctrl}
		if i == 0 {
			fs.slowDial = latency + 200*time.Millisecond
		}
		registerFake(addr, fs)
		addrs = append(addrs, addr)
		keys = append(keys, "vsrv@"+addr)
	}
	defer func() {
		for _, a := range addrs {
			unregisterFake(a)
		}
	}()
	d, _ := client.NewMultipleServersDiscovery([]*client.KVPair{{Key: keys[0]}, {Key: keys[1]}})
	opt := client.DefaultOption
	opt.SerializeType = protocol.JSON
	opt.Heartbeat = false
	opt.BackupLatency = latency
	xc := client.NewXClient("Svc", client.Failbackup, client.SelectByUser, d, opt)
	defer xc.Close()
	// the selection at the top of Call goes to server 1 (fast), the first request to server 0 (slow to connect)
	xc.SetSelector(&rrSel{servers: keys, i: 1})
	resc := make(chan string, 1)
	go func() {
		reply := -1
		if err := xc.Call(context.Background(), "M", 1, &reply); err != nil {
			resc <- c10ErrClass(err)
		} else {
			resc <- "ok:" + strconv.Itoa(reply)
		}
	}()
	var first, second *bkEvent
	deadline := time.After(6 * time.Second)
	res := ""
loop:
	for {
		select {
		case e := <-ctrl.ev:
			if e.kind != "arrive" {
				continue
			}
			ev := e
			if first == nil {
				first = &ev
				go func() { time.Sleep(time.Duration(answerAfter) * time.Millisecond); close(ev.rel) }()
			} else {
				second = &ev
				close(ev.rel)
			}
		case res = <-resc:
			break loop
		case <-deadline:
			o.Fail(id, "hang", "the fail-backup call did not return within 6 s", abstract)
			return
		}
	}
	if !strings.HasPrefix(res, "ok:") {
		o.Fail(id, "untruthful-result", fmt.Sprintf("both servers answer successfully, the call returned %q", res), abstract)
	}
	if second != nil {
		if gap := second.at.Sub(first.at); gap < latency/2 {
			o.Fail(id, "backup-too-early", fmt.Sprintf("the first request reached its server (whose connection took %v to establish) and was answered after %d ms; the backup request reached the other server %v after the first - the backup latency is %v", latency+200*time.Millisecond, answerAfter, gap, latency), abstract)
		}
	}
	o.ImplOnly(id, abstract, true)
}

func runC10(r *common.Rand, tier string, o *common.Out, replay string) {
	if strings.HasPrefix(replay, "slowdial|") {
		n, _ := strconv.Atoi(strings.TrimPrefix(replay, "slowdial|"))
		c10BackupSlowDial(o, "replay", n)
		return
	}
	if replay == "" {
		c10BackupSlowDial(o, "slowdial0", 5)
	}
	if strings.HasPrefix(replay, "late|") {
		c10LateCleanup(o, "replay", strings.TrimPrefix(replay, "late|"))
		return
	}
	if replay == "" {
		for i, m := range []string{"fast", "try", "over"} {
			c10LateCleanup(o, fmt.Sprintf("late%d", i), m)
		}
	}
	if replay != "" {
		raw := strings.HasPrefix(replay, "raw|")
		cs := parseC10(strings.SplitN(replay, "|", 2)[1])
		obs, fails := c10Run(cs, raw)
		for _, f := range fails {
			p := strings.SplitN(f, "|", 2)
			o.Fail("replay", p[0], p[1], replay)
		}
		o.Case("replay", cs.model(), obs, true)
		return
	}
	outcomes := []string{"ok", "svc", "lost", "ctx", "dl"}
	var cases []c10case
	// exhaustive over small scripts: modes x retries 0..2 x servers 1..3 x outcome sequences (pruned)
	for _, mode := range []string{"fast", "try", "over"} {
		for retries := 0; retries <= 2; retries++ {
			for n := 1; n <= 3; n++ {
				// sequences of per-attempt outcomes up to retries+1, assigned to the servers round-robin fashion
				var rec func(seq []string)
				rec = func(seq []string) {
					if len(seq) > 0 {
						cs := c10case{mode: mode, retries: retries}
						cs.dials = make([]string, n)
						cs.calls = make([][]string, n)
						for i, oc := range seq {
							srv := i % n
							if mode == "try" || mode == "fast" {
								srv = 0
							}
							if oc == "ok" {
								oc = "ok" + strconv.Itoa(10+i)
							}
							cs.calls[srv] = append(cs.calls[srv], oc)
						}
						cases = append(cases, cs)
					}
					if len(seq) == retries+1 || (mode == "fast" && len(seq) == 1) {
						return
					}
					if len(seq) > 0 && seq[len(seq)-1] != "lost" {
						return
					}
					for _, oc := range outcomes {
						rec(append(append([]string{}, seq...), oc))
					}
				}
				rec(nil)
			}
		}
	}
	// random scripts with refused dials, cursors, 0..4 servers, retries 0..3
	nr := 160
	if tier == "thorough" {
		nr = 4000
	}
	for i := 0; i < nr; i++ {
		cs := c10case{mode: []string{"fast", "try", "over"}[r.Intn(3)], retries: r.Intn(4), rr: r.Intn(5)}
		n := r.Intn(5)
		for s := 0; s < n; s++ {
			d := ""
			for k := 0; k < r.Intn(4); k++ {
				if r.Chance(45) {
					d += "0"
				} else {
					d += "1"
				}
			}
			var cl []string
			for k := 0; k < r.Intn(4); k++ {
				oc := outcomes[r.Intn(len(outcomes))]
				if r.Chance(40) {
					oc = "lost"
				}
				if oc == "ok" {
					oc = "ok" + strconv.Itoa(1+r.Intn(90))
				}
				cl = append(cl, oc)
			}
			cs.dials = append(cs.dials, d)
			cs.calls = append(cs.calls, cl)
		}
		cases = append(cases, cs)
	}
	// fail-backup: 2 servers, every dial script in {accept, refuse once, refuse twice}^2 x every outcome pair x both
	// timing choices x both cursors; random scripts over 2-3 servers in addition
	var bcases []c10case
	for _, d0 := range []string{"", "0", "00"} {
		for _, d1 := range []string{"", "0", "00"} {
			for _, o0 := range []string{"ok", "svc", "lost"} {
				for _, o1 := range []string{"ok", "svc", "lost"} {
					for t := 0; t < 4; t++ {
						for rr := 0; rr < 2; rr++ {
							mk := func(o string, n int) string {
								if o == "ok" {
									return "ok" + strconv.Itoa(n)
								}
								return o
							}
							bcases = append(bcases, c10case{mode: fmt.Sprintf("backup%d%d", t/2, t%2), rr: rr,
								dials: []string{d0, d1}, calls: [][]string{{mk(o0, 40)}, {mk(o1, 41)}}})
						}
					}
				}
			}
		}
	}
	if tier != "thorough" {
		var keep []c10case
		for _, c := range bcases {
			if r.Chance(30) {
				keep = append(keep, c)
			}
		}
		bcases = keep
	}
	nb := 40
	if tier == "thorough" {
		nb = 1500
	}
	for i := 0; i < nb; i++ {
		n := 2 + r.Intn(2)
		cs := c10case{mode: fmt.Sprintf("backup%d%d", r.Intn(2), r.Intn(2)), rr: r.Intn(n)}
		for s := 0; s < n; s++ {
			cs.dials = append(cs.dials, []string{"", "", "0", "00", "1"}[r.Intn(5)])
			oc := []string{"ok", "ok", "svc", "lost"}[r.Intn(4)]
			if oc == "ok" {
				oc = "ok" + strconv.Itoa(1+r.Intn(90))
			}
			cs.calls = append(cs.calls, []string{oc})
		}
		bcases = append(bcases, cs)
	}
	if tier != "thorough" && len(cases) > 700 {
		// keep the quick tier short: every third exhaustive case plus all random ones
		var keep []c10case
		for i, c := range cases {
			if i%3 == 0 || i >= len(cases)-nr {
				keep = append(keep, c)
			}
		}
		cases = keep
	}
	cases = append(cases, bcases...)
	// in every third case the service errors carry an empty text: still service errors, not connection failures
	for i := range cases {
		if i%3 != 1 {
			continue
		}
		cl := make([][]string, len(cases[i].calls))
		for k, l := range cases[i].calls {
			cl[k] = append([]string{}, l...)
			for j, a := range cl[k] {
				if a == "svc" {
					cl[k][j] = "svc0"
				}
			}
		}
		cases[i].calls = cl
	}
	type resT struct {
		obs   string
		fails []string
	}
	results := make([][2]resT, len(cases))
	sem := make(chan struct{}, 32)
	done := make(chan struct{})
	go func() {
		for i := range cases {
			sem <- struct{}{}
			go func(i int) {
				if strings.HasPrefix(cases[i].mode, "backup") {
					o1, f1 := c10RunBackup(cases[i])
					results[i] = [2]resT{{o1, f1}, {"", nil}}
				} else {
					o1, f1 := c10Run(cases[i], false)
					o2, f2 := c10Run(cases[i], true)
					results[i] = [2]resT{{o1, f1}, {o2, f2}}
				}
				<-sem
			}(i)
		}
		for k := 0; k < cap(sem); k++ {
			sem <- struct{}{}
		}
		close(done)
	}()
	<-done
	for i, cs := range cases {
		for v, name := range []string{"call", "raw"} {
			if name == "raw" && strings.HasPrefix(cs.mode, "backup") {
				continue
			}
			id := fmt.Sprintf("x%d%s", i, name)
			abstract := name + "|" + cs.model()
			o.Begin(id, abstract)
			res := results[i][v]
			for _, f := range res.fails {
				p := strings.SplitN(f, "|", 2)
				o.Fail(id, p[0], p[1], abstract)
			}
			nAtt := strings.Count(res.obs, ":")
			o.Case(id, cs.model(), res.obs, nAtt >= 2 || len(cs.dials) >= 2)
			o.Count("mode=" + cs.mode + "/" + name)
		}
	}
}
