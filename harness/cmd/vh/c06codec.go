package main

// C06, the argument that cannot be encoded: a call whose argument the codec refuses fails on its own; the calls that
// follow - two of them encoding their arguments at the same time - put their OWN arguments on the wire.  For the JSON
// and the MessagePack codec.  Oracle only.

import (
	"context"
	"encoding/binary"
	"encoding/json"
	"fmt"
	"runtime"
	"runtime/debug"
	"time"

	"github.com/smallnest/rpcx/client"
	"github.com/smallnest/rpcx/protocol"
	"github.com/vmihailenco/msgpack/v5"

	"verifharness/internal/common"
	"verifharness/internal/refcodec"
)

// an argument whose encoding parks in the middle (both codecs)
type parkArg struct {
	V      string
	parked chan struct{}
	rel    chan struct{}
}

func (a *parkArg) wait() {
	if a.parked != nil {
		a.parked <- struct{}{}
		<-a.rel
	}
}
func (a *parkArg) MarshalJSON() ([]byte, error) {
	a.wait()
	return json.Marshal(map[string]string{"V": a.V})
}
func (a *parkArg) EncodeMsgpack(enc *msgpack.Encoder) error {
	if err := enc.EncodeMapLen(1); err != nil {
		return err
	}
	if err := enc.EncodeString("V"); err != nil {
		return err
	}
	a.wait() // half of the value has been written
	return enc.EncodeString(a.V)
}

// an argument no codec can encode
type badArg struct{ C chan int }

func (b *badArg) MarshalJSON() ([]byte, error) { return nil, fmt.Errorf("cannot encode a channel") }
func (b *badArg) EncodeMsgpack(enc *msgpack.Encoder) error {
	enc.EncodeString("partial")
	return fmt.Errorf("cannot encode a channel")
}

func c06Codec(o *common.Out, id string, ser protocol.SerializeType, failures int) {
	abstract := fmt.Sprintf("codeciso|%d|%d", int(ser), failures)
	o.Begin(id, abstract)
	prevP := runtime.GOMAXPROCS(1)
	prevGC := debug.SetGCPercent(-1)
	defer func() { runtime.GOMAXPROCS(prevP); debug.SetGCPercent(prevGC) }()
	fail := func(sig, d string) { o.Fail(id, sig, d, abstract) }
	conn := newSimConn()
	addr := "codeciso-" + id
	simMu.Lock()
	simConns[addr] = conn
	simMu.Unlock()
	opt := client.DefaultOption
	opt.SerializeType = ser
	opt.Heartbeat = false
	cl := client.NewClient(opt)
	if err := cl.Connect("vsim", addr); err != nil {
		fail("rig", err.Error())
		return
	}
	simMu.Lock()
	delete(simConns, addr)
	simMu.Unlock()
	defer func() {
		cl.Close()
		select {
		case conn.rdErr <- fmt.Errorf("closed"):
		default:
		}
	}()
	frames := make(chan []byte, 16)
	stop := make(chan struct{})
	defer close(stop)
	go func() {
		for {
			select {
			case w := <-conn.writes:
				w.reply <- nil
				frames <- w.frame
			case <-stop:
				return
			}
		}
	}()
	// the aggressor(s): arguments that cannot be encoded
	for k := 0; k < failures; k++ {
		var rep int
		ctx, cancel := context.WithTimeout(context.Background(), 2*time.Second)
		err := cl.Call(ctx, "Svc", "m", &badArg{}, &rep)
		cancel()
		if err == nil {
			fail("rig", "an argument that cannot be encoded was accepted")
			return
		}
	}
	if cl.IsShutdown() || cl.IsClosing() {
		fail("connection-torn-down", "the connection was shut down by a call whose argument could not be encoded")
		return
	}
	// two victims whose encodings overlap
	v := []*parkArg{{V: "victim-one-AAAAAAAAAAAAAAAA", parked: make(chan struct{}, 1), rel: make(chan struct{})},
		{V: "victim-two-BBBBBBBBBBBBBBBBBBBBBBBB", parked: make(chan struct{}, 1), rel: make(chan struct{})}}
	for _, a := range v {
		a := a
		go cl.Go(context.Background(), "Svc", "m", a, new(int), make(chan *client.Call, 1))
		select {
		case <-a.parked:
		case <-time.After(3 * time.Second):
			fail("call-stuck", "a call never started encoding its argument")
			return
		}
	}
	close(v[1].rel)
	close(v[0].rel)
	got := map[uint64]string{}
	for k := 0; k < 2; k++ {
		select {
		case fr := <-frames:
			f, err := refcodec.Parse(fr)
			if err != nil {
				fail("wrong-request", "a request frame on the wire does not parse: "+err.Error())
				return
			}
			var m map[string]string
			var derr error
			if ser == protocol.JSON {
				derr = json.Unmarshal(f.Raw, &m)
			} else {
				derr = msgpack.Unmarshal(f.Raw, &m)
			}
			if derr != nil {
				fail("wrong-request", fmt.Sprintf("the argument bytes of request %d on the wire do not decode (%v): %q", binary.BigEndian.Uint64(f.Header[4:12]), derr, f.Raw))
				return
			}
			got[binary.BigEndian.Uint64(f.Header[4:12])] = m["V"]
		case <-time.After(3 * time.Second):
			fail("call-stuck", fmt.Sprintf("only %d of 2 requests were written", k))
			return
		}
	}
	seen := map[string]bool{}
	for _, s := range got {
		seen[s] = true
	}
	if !seen[v[0].V] || !seen[v[1].V] {
		fail("wrong-request", fmt.Sprintf("after %d call(s) with an argument that cannot be encoded, two calls that encoded their arguments at the same time put %v on the wire; they were given %q and %q", failures, got, v[0].V, v[1].V))
	}
	o.ImplOnly(id, abstract, true)
	o.Count("codec-isolation")
}
