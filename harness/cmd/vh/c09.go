package main

// C09: arguments, replies and metadata arrive unchanged.
//
// A real client calls a real server over every stream transport available offline (tcp, unix,
// http-connect, websocket, in-memory), with every serialization codec (raw bytes, JSON, protobuf,
// MessagePack, Thrift), compression off / gzip, payload sizes around the compression threshold and up
// to 1 MiB, binary-safe metadata, sequentially and from concurrent callers.  The handler records what
// it was given; the caller records what it got back.  On the in-memory transport the bytes of both
// directions are tapped and the request / response frames are compared with the frames the model builds.
//
// Oracle (independent of the model): handler-observed arguments and metadata equal what the caller
// passed; caller-observed reply and response metadata equal what the handler returned; a compressed
// payload on the wire unzips to the codec's encoding.

import (
	"bytes"
	"compress/gzip"
	"context"
	"encoding/binary"
	"encoding/hex"
	"errors"
	"fmt"
	"io"
	"net"
	"os"
	"path/filepath"
	"sort"
	"strconv"
	"strings"
	"sync"
	"time"

	"github.com/apache/thrift/lib/go/thrift"
	"github.com/smallnest/rpcx/client"
	"github.com/smallnest/rpcx/protocol"
	"github.com/smallnest/rpcx/server"
	"github.com/smallnest/rpcx/share"

	"verifharness/internal/common"
	"verifharness/internal/refcodec"
)

func init() { props["C09"] = runE2E }

// ---------- argument / reply types, one per codec family ----------
type JArgs struct {
	Id  int
	Pad []byte
	Big interface{} // an integer beyond 2^53 in an untyped position (an id, a hash): it arrives as the same integer
}
type JReply struct {
	Id  int
	Pad []byte
	Big interface{}
}

func bigOf(id int) int64 { return 9007199254740993 + int64(id)*2 }

// hand-written protobuf message { int32 id = 1; bytes pad = 2; }
type PMsg struct {
	Id  int32
	Pad []byte
}

func (m *PMsg) Reset()         { *m = PMsg{} }
func (m *PMsg) String() string { return fmt.Sprintf("id:%d pad:%d bytes", m.Id, len(m.Pad)) }
func (m *PMsg) ProtoMessage()  {}
func (m *PMsg) Marshal() ([]byte, error) {
	var b []byte
	if m.Id != 0 {
		b = append(b, 0x08)
		b = binary.AppendUvarint(b, uint64(uint32(m.Id)))
	}
	if len(m.Pad) > 0 {
		b = append(b, 0x12)
		b = binary.AppendUvarint(b, uint64(len(m.Pad)))
		b = append(b, m.Pad...)
	}
	return b, nil
}
func (m *PMsg) Unmarshal(b []byte) error {
	for len(b) > 0 {
		tag, n := binary.Uvarint(b)
		if n <= 0 {
			return errors.New("bad tag")
		}
		b = b[n:]
		switch tag {
		case 0x08:
			v, n := binary.Uvarint(b)
			if n <= 0 {
				return errors.New("bad varint")
			}
			m.Id = int32(uint32(v))
			b = b[n:]
		case 0x12:
			l, n := binary.Uvarint(b)
			if n <= 0 || uint64(len(b)-n) < l {
				return errors.New("bad length")
			}
			m.Pad = append([]byte(nil), b[n:n+int(l)]...)
			b = b[n+int(l):]
		default:
			return errors.New("unknown field")
		}
	}
	return nil
}

// hand-written thrift struct { 1: i32 id, 2: binary pad }
type TMsg struct {
	Id  int32
	Pad []byte
}

func (p *TMsg) Write(ctx context.Context, o thrift.TProtocol) error {
	if err := o.WriteStructBegin(ctx, "TMsg"); err != nil {
		return err
	}
	if err := o.WriteFieldBegin(ctx, "id", thrift.I32, 1); err != nil {
		return err
	}
	if err := o.WriteI32(ctx, p.Id); err != nil {
		return err
	}
	if err := o.WriteFieldEnd(ctx); err != nil {
		return err
	}
	if err := o.WriteFieldBegin(ctx, "pad", thrift.STRING, 2); err != nil {
		return err
	}
	if err := o.WriteBinary(ctx, p.Pad); err != nil {
		return err
	}
	if err := o.WriteFieldEnd(ctx); err != nil {
		return err
	}
	if err := o.WriteFieldStop(ctx); err != nil {
		return err
	}
	return o.WriteStructEnd(ctx)
}
func (p *TMsg) Read(ctx context.Context, i thrift.TProtocol) error {
	if _, err := i.ReadStructBegin(ctx); err != nil {
		return err
	}
	for {
		_, ft, id, err := i.ReadFieldBegin(ctx)
		if err != nil {
			return err
		}
		if ft == thrift.STOP {
			break
		}
		switch {
		case id == 1 && ft == thrift.I32:
			v, err := i.ReadI32(ctx)
			if err != nil {
				return err
			}
			p.Id = v
		case id == 2 && ft == thrift.STRING:
			v, err := i.ReadBinary(ctx)
			if err != nil {
				return err
			}
			p.Pad = v
		default:
			if err := i.Skip(ctx, ft); err != nil {
				return err
			}
		}
		if err := i.ReadFieldEnd(ctx); err != nil {
			return err
		}
	}
	return i.ReadStructEnd(ctx)
}
func (p *TMsg) String() string { return fmt.Sprintf("TMsg(%d,%d bytes)", p.Id, len(p.Pad)) }

// ---------- the service ----------
type e2eObs struct {
	args interface{}
	meta map[string]string
}
type e2eStore struct {
	mu  sync.Mutex
	obs map[string]e2eObs
}

func (s *e2eStore) put(cid string, o e2eObs) { s.mu.Lock(); s.obs[cid] = o; s.mu.Unlock() }
func (s *e2eStore) get(cid string, d time.Duration) (e2eObs, bool) {
	deadline := time.Now().Add(d)
	for {
		s.mu.Lock()
		o, ok := s.obs[cid]
		s.mu.Unlock()
		if ok || time.Now().After(deadline) {
			return o, ok
		}
		time.Sleep(200 * time.Microsecond)
	}
}

type E2E struct{ st *e2eStore }

// an empty byte slice and a nil one are the same value
func canonB(b []byte) []byte {
	if len(b) == 0 {
		return nil
	}
	return b
}

func canonV(v interface{}) interface{} {
	switch x := v.(type) {
	case *[]byte:
		*x = canonB(*x)
	case *PMsg:
		x.Pad = canonB(x.Pad)
	case *TMsg:
		x.Pad = canonB(x.Pad)
	case *JArgs:
		x.Pad = canonB(x.Pad)
	case *JReply:
		x.Pad = canonB(x.Pad)
	}
	return v
}

func flip(b []byte) []byte {
	if len(b) == 0 {
		return nil
	}
	out := make([]byte, len(b))
	for i, x := range b {
		out[i] = x ^ 1
	}
	return out
}

// the response metadata the handler sets: derived from the request metadata it saw
func resMetaFor(req map[string]string) map[string]string {
	out := map[string]string{}
	for k, v := range req {
		if k == "cid" {
			continue
		}
		out[k+"-r"] = v + v
	}
	return out
}

func (t *E2E) common(ctx context.Context, args interface{}) {
	reqMeta, _ := ctx.Value(share.ReqMetaDataKey).(map[string]string)
	cp := map[string]string{}
	for k, v := range reqMeta {
		cp[k] = v
	}
	if rm, ok := ctx.Value(share.ResMetaDataKey).(map[string]string); ok {
		for k, v := range resMetaFor(reqMeta) {
			rm[k] = v
		}
	}
	t.st.put(cp["cid"], e2eObs{args: canonV(args), meta: cp})
}
func (t *E2E) J(ctx context.Context, a *JArgs, r *JReply) error {
	t.common(ctx, &JArgs{Id: a.Id, Pad: append([]byte(nil), a.Pad...), Big: a.Big})
	r.Id, r.Pad, r.Big = a.Id, flip(a.Pad), a.Big
	return nil
}
func (t *E2E) P(ctx context.Context, a *PMsg, r *PMsg) error {
	t.common(ctx, &PMsg{Id: a.Id, Pad: append([]byte(nil), a.Pad...)})
	r.Id, r.Pad = a.Id, flip(a.Pad)
	return nil
}
func (t *E2E) T(ctx context.Context, a *TMsg, r *TMsg) error {
	t.common(ctx, &TMsg{Id: a.Id, Pad: append([]byte(nil), a.Pad...)})
	r.Id, r.Pad = a.Id, flip(a.Pad)
	return nil
}
func (t *E2E) B(ctx context.Context, a *[]byte, r *[]byte) error {
	cp := append([]byte(nil), (*a)...)
	t.common(ctx, &cp)
	*r = flip(*a)
	return nil
}

// ---------- transports ----------
type tapConn struct {
	net.Conn
	mu   sync.Mutex
	w, r []byte
}

func (c *tapConn) Write(b []byte) (int, error) {
	n, err := c.Conn.Write(b)
	c.mu.Lock()
	c.w = append(c.w, b[:n]...)
	c.mu.Unlock()
	return n, err
}
func (c *tapConn) Read(b []byte) (int, error) {
	n, err := c.Conn.Read(b)
	c.mu.Lock()
	c.r = append(c.r, b[:n]...)
	c.mu.Unlock()
	return n, err
}
func (c *tapConn) take() ([]byte, []byte) {
	c.mu.Lock()
	defer c.mu.Unlock()
	w, r := c.w, c.r
	c.w, c.r = nil, nil
	return w, r
}

type e2eRig struct {
	network, addr string
	srv           *server.Server
	st            *e2eStore
	ln            *pipeListener
	tap           *tapConn
	cleanup       func()
}

func newE2ERig(network string) (*e2eRig, error) {
	r := &e2eRig{network: network, st: &e2eStore{obs: map[string]e2eObs{}}}
	r.srv = server.NewServer()
	r.srv.RegisterName("E2E", &E2E{st: r.st}, "")
	// the same handlers registered as plain functions (their argument and reply objects are pooled along another path)
	ef := &E2E{st: r.st}
	r.srv.RegisterFunctionName("E2EF", "J", ef.J, "")
	r.srv.RegisterFunctionName("E2EF", "P", ef.P, "")
	r.srv.RegisterFunctionName("E2EF", "T", ef.T, "")
	r.srv.RegisterFunctionName("E2EF", "B", ef.B, "")
	switch network {
	case "mem":
		r.ln = newPipeListener()
		go r.srv.ServeListener("vpipe", r.ln)
		client.ConnFactories["mem"] = func(c *client.Client, network, address string) (net.Conn, error) {
			cn, err := r.ln.dial()
			if err != nil {
				return nil, err
			}
			r.tap = &tapConn{Conn: cn}
			return r.tap, nil
		}
		r.addr = "x"
		r.cleanup = func() { r.srv.Close(); r.ln.Close() }
	case "unix":
		dir, _ := os.MkdirTemp("", "vhsock")
		r.addr = filepath.Join(dir, "s")
		go r.srv.Serve("unix", r.addr)
		r.cleanup = func() { r.srv.Close(); os.RemoveAll(dir) }
	default: // tcp, http, ws
		l, err := net.Listen("tcp", "127.0.0.1:0")
		if err != nil {
			return nil, err
		}
		r.addr = l.Addr().String()
		l.Close()
		go r.srv.Serve(network, r.addr)
		r.cleanup = func() { r.srv.Close() }
	}
	if network == "http" || network == "ws" {
		// these serve loops do not signal Started: the client retries its connection instead
		time.Sleep(50 * time.Millisecond)
		return r, nil
	}
	select {
	case <-r.srv.Started:
	case <-time.After(3 * time.Second):
		return nil, errors.New("server did not start")
	}
	return r, nil
}

func (r *e2eRig) client(ser protocol.SerializeType, ct protocol.CompressType) (*client.Client, error) {
	opt := client.DefaultOption
	opt.SerializeType = ser
	opt.CompressType = ct
	opt.Heartbeat = false
	c := client.NewClient(opt)
	var err error
	for i := 0; i < 40; i++ {
		if err = c.Connect(r.network, r.addr); err == nil {
			return c, nil
		}
		time.Sleep(25 * time.Millisecond)
	}
	return nil, err
}

// ---------- one call ----------
type e2eCall struct {
	ser   protocol.SerializeType
	ct    protocol.CompressType
	size  int
	meta  map[string]string
	ow    bool
	stale bool // the caller's Reply holds something else before the call
}

var e2eMethod = map[protocol.SerializeType]string{protocol.SerializeNone: "B", protocol.JSON: "J", protocol.ProtoBuffer: "P",
	protocol.MsgPack: "J", protocol.Thrift: "T"}

func e2eArgs(ser protocol.SerializeType, id int, pad []byte) (args, reply, want interface{}) {
	pad = canonB(pad)
	switch ser {
	case protocol.SerializeNone:
		a := append([]byte(nil), pad...)
		var r []byte
		w := flip(pad)
		return &a, &r, &w
	case protocol.ProtoBuffer:
		return &PMsg{Id: int32(id), Pad: pad}, &PMsg{}, &PMsg{Id: int32(id), Pad: flip(pad)}
	case protocol.Thrift:
		return &TMsg{Id: int32(id), Pad: pad}, &TMsg{}, &TMsg{Id: int32(id), Pad: flip(pad)}
	default:
		return &JArgs{Id: id, Pad: pad, Big: bigOf(id)}, &JReply{}, &JReply{Id: id, Pad: flip(pad), Big: bigOf(id)}
	}
}

func e2eStale(reply interface{}) {
	switch r := reply.(type) {
	case *[]byte:
		*r = []byte("stale")
	case *PMsg:
		r.Id, r.Pad = 77, []byte("stale")
	case *TMsg:
		r.Id, r.Pad = 77, []byte("stale")
	case *JReply:
		r.Id, r.Pad = 77, []byte("stale")
	}
}

func metaSorted(m map[string]string, skip ...string) string {
	var ks []string
outer:
	for k := range m {
		for _, s := range skip {
			if k == s {
				continue outer
			}
		}
		ks = append(ks, k)
	}
	sort.Strings(ks)
	var out []string
	for _, k := range ks {
		out = append(out, hexOrDash([]byte(k))+":"+hexOrDash([]byte(m[k])))
	}
	return strings.Join(out, ",")
}

func lenMd5(b []byte) string { return fmt.Sprintf("%d:%s", len(b), md5hex(b)) }

func hexOrDash(b []byte) string {
	if len(b) == 0 {
		return "-"
	}
	return hex.EncodeToString(b)
}

func kvTok(kvs []refcodec.KV) string {
	if len(kvs) == 0 {
		return "-"
	}
	var out []string
	for _, kv := range kvs {
		out = append(out, hex.EncodeToString(kv.K)+":"+hex.EncodeToString(kv.V))
	}
	return strings.Join(out, ",")
}
func mapTok(m map[string]string) string {
	if len(m) == 0 {
		return "-"
	}
	return metaSorted(m)
}

func gunzip(b []byte) ([]byte, error) {
	zr, err := gzip.NewReader(bytes.NewReader(b))
	if err != nil {
		return nil, err
	}
	return io.ReadAll(zr)
}

var e2eSeq = 0

// run one call; returns the model line, the implementation's observables and oracle failures
func e2eAfterEncodeFailure(rig *e2eRig, cl *client.Client, ser protocol.SerializeType) string {
	e2eSeq++
	ctx := context.WithValue(context.Background(), share.ReqMetaDataKey, map[string]string{"cid": "left-behind", "secret": "s3cr3t"})
	c1, cancel1 := context.WithTimeout(ctx, 5*time.Second)
	var dummy JReply
	// a channel is nothing any of the codecs can encode
	err := cl.Call(c1, "E2E", e2eMethod[ser], make(chan int), &dummy)
	cancel1()
	if err == nil {
		return "" // this codec took the value: nothing failed, nothing to look at
	}
	rig.st.mu.Lock()
	delete(rig.st.obs, "")
	rig.st.mu.Unlock()
	args, reply, _ := e2eArgs(ser, e2eSeq, []byte("after-a-failure"))
	c2, cancel2 := context.WithTimeout(context.Background(), 5*time.Second)
	defer cancel2()
	if err := cl.Call(c2, "E2E", e2eMethod[ser], args, reply); err != nil {
		return "the call after the failed one: " + err.Error()
	}
	got, ok := rig.st.get("", 2*time.Second)
	if !ok {
		// the handler noted the call under another caller's id
		if lb, ok2 := rig.st.get("left-behind", 10*time.Millisecond); ok2 {
			return fmt.Sprintf("a call sent without metadata reached the handler with the metadata of an earlier call that was never sent: %v", lb.meta)
		}
		return "the handler did not note the call"
	}
	if len(got.meta) != 0 {
		return fmt.Sprintf("a call sent without metadata reached the handler with metadata %v (an earlier call that failed to encode carried it)", got.meta)
	}
	return ""
}

func e2eDo(rig *e2eRig, cl *client.Client, k e2eCall, r *common.Rand, tapped bool) (string, string, []string) {
	e2eSeq++
	cid := fmt.Sprintf("c%d", e2eSeq)
	pad := make([]byte, k.size)
	for i := range pad {
		pad[i] = 'x'
	}
	args, reply, want := e2eArgs(k.ser, e2eSeq, pad)
	if k.stale {
		e2eStale(reply)
	}
	meta := map[string]string{"cid": cid}
	for mk, mv := range k.meta {
		meta[mk] = mv
	}
	resMeta := map[string]string{}
	ctx := context.WithValue(context.Background(), share.ReqMetaDataKey, meta)
	ctx = context.WithValue(ctx, share.ResMetaDataKey, resMeta)
	codec := share.Codecs[k.ser]
	argsEnc, _ := codec.Encode(args)
	wantEnc, _ := codec.Encode(want)
	var fails []string
	if tapped && rig.tap != nil {
		rig.tap.take()
	}
	var err error
	if k.ow {
		call := cl.Go(ctx, "E2E", e2eMethod[k.ser], args, nil, make(chan *client.Call, 1))
		select {
		case <-call.Done:
			err = call.Error
		case <-time.After(5 * time.Second):
			err = errors.New("one-way call did not complete")
		}
	} else {
		c2, cancel := context.WithTimeout(ctx, 20*time.Second)
		err = cl.Call(c2, "E2E", e2eMethod[k.ser], args, reply)
		cancel()
	}
	if err != nil {
		fails = append(fails, fmt.Sprintf("call-failed: %s ser=%d ct=%d size=%d: %v", rig.network, k.ser, k.ct, k.size, err))
	}
	obs, ok := rig.st.get(cid, 3*time.Second)
	hview := "hview=none"
	if ok {
		oe, _ := codec.Encode(obs.args)
		hview = fmt.Sprintf("hview=%s|%s", lenMd5(oe), metaSorted(obs.meta))
		if !bytes.Equal(oe, argsEnc) {
			fails = append(fails, fmt.Sprintf("args-differ: %s ser=%d ct=%d size=%d: the handler was given other arguments than the caller passed", rig.network, k.ser, k.ct, k.size))
		}
		if metaSorted(obs.meta) != metaSorted(meta) {
			fails = append(fails, fmt.Sprintf("reqmeta-differ: %s ser=%d ct=%d: handler saw %q, caller passed %q", rig.network, k.ser, k.ct, obs.meta, meta))
		}
	} else {
		fails = append(fails, fmt.Sprintf("handler-not-run: %s ser=%d ct=%d size=%d", rig.network, k.ser, k.ct, k.size))
	}
	owS := "0"
	if k.ow {
		owS = "1"
	}
	tapS := "0"
	zipReq, zipRes := "-", "-"
	reqMetaWire, resMetaWire := mapTok(meta), mapTok(resMetaFor(meta))
	seq := uint64(0)
	reqS, resS := "", ""
	if tapped && rig.tap != nil {
		tapS = "1"
		deadline := time.Now().Add(2 * time.Second)
		var wf, rf [][]byte
		var wAll, rAll []byte
		for {
			w, rd := rig.tap.take()
			wAll, rAll = append(wAll, w...), append(rAll, rd...)
			wf, _ = splitFrames(wAll)
			rf, _ = splitFrames(rAll)
			if (len(wf) >= 1 && (k.ow || len(rf) >= 1)) || time.Now().After(deadline) {
				break
			}
			time.Sleep(200 * time.Microsecond)
		}
		if len(wf) == 1 {
			f, _ := refcodec.Parse(wf[0])
			seq = binary.BigEndian.Uint64(f.Header[4:12])
			reqMetaWire = kvTok(f.Meta)
			reqS = fmt.Sprintf("req=%s:%s ", hex.EncodeToString(f.Header[:]), lenMd5(wf[0]))
			if (f.Header[2]>>2)&7 != 0 {
				zipReq = hexOrDash(f.Raw)
				if un, err := gunzip(f.Raw); err != nil || !bytes.Equal(un, argsEnc) {
					fails = append(fails, fmt.Sprintf("zip-differs: the compressed request payload does not unzip to the encoded arguments (ser=%d size=%d)", k.ser, k.size))
				}
			} else if !bytes.Equal(f.Raw, argsEnc) {
				fails = append(fails, fmt.Sprintf("payload-differs: the request payload on the wire is not the encoded arguments (ser=%d size=%d)", k.ser, k.size))
			}
		} else {
			reqS = fmt.Sprintf("req=%d-frames ", len(wf))
		}
		if !k.ow {
			if len(rf) == 1 {
				f, _ := refcodec.Parse(rf[0])
				resMetaWire = kvTok(f.Meta)
				resS = fmt.Sprintf(" res=%s:%s", hex.EncodeToString(f.Header[:]), lenMd5(rf[0]))
				if (f.Header[2]>>2)&7 != 0 {
					zipRes = hexOrDash(f.Raw)
					if un, err := gunzip(f.Raw); err != nil || !bytes.Equal(un, wantEnc) {
						fails = append(fails, fmt.Sprintf("zip-differs: the compressed response payload does not unzip to the encoded reply (ser=%d size=%d)", k.ser, k.size))
					}
				}
			} else {
				resS = fmt.Sprintf(" res=%d-frames", len(rf))
			}
		}
	}
	impl := reqS + hview
	if !k.ow {
		re, _ := codec.Encode(canonV(reply))
		impl += resS + fmt.Sprintf(" cview=%s|%s", lenMd5(re), metaSorted(resMeta, share.ServerAddress))
		if !bytes.Equal(re, wantEnc) {
			fails = append(fails, fmt.Sprintf("reply-differ: %s ser=%d ct=%d size=%d stale=%v: the caller's reply is not what the handler returned", rig.network, k.ser, k.ct, k.size, k.stale))
		}
		if metaSorted(resMeta, share.ServerAddress) != metaSorted(resMetaFor(meta)) {
			fails = append(fails, fmt.Sprintf("resmeta-differ: %s ser=%d ct=%d: caller saw %q, handler set %q", rig.network, k.ser, k.ct, resMeta, resMetaFor(meta)))
		}
	}
	model := fmt.Sprintf("e2e %d %d %d %s %s %s %s %s %s %s %s %s %s", k.ser, k.ct, seq, owS,
		hex.EncodeToString([]byte("E2E")), hex.EncodeToString([]byte(e2eMethod[k.ser])), reqMetaWire,
		hexOrDash(argsEnc), zipReq, tapS, hexOrDash(wantEnc), resMetaWire, zipRes)
	return model, impl, fails
}

func genMeta9(r *common.Rand) map[string]string {
	m := map[string]string{}
	n := r.Intn(4)
	pool := []string{"k", "key with spaces", "k\x00nul", "ünï", "=&%", "\xff\xfe", "a-very-long-key-" + strings.Repeat("k", 300), "K"}
	vals := []string{"v", "", "value with spaces", "\x00\x01\x02", "=&%+", "\xff\xfe\xfd", strings.Repeat("v", 2000), "ünïcödé"}
	for i := 0; i < n; i++ {
		m[pool[r.Intn(len(pool))]] = vals[r.Intn(len(vals))]
	}
	return m
}

func init() {
	client.ConnFactories["vsparse"] = func(c *client.Client, network, address string) (net.Conn, error) {
		spMu.Lock()
		ln := spLns[address]
		spMu.Unlock()
		if ln == nil {
			return nil, errors.New("no such listener")
		}
		return ln.dial()
	}
}

func runE2E(r *common.Rand, tier string, o *common.Out, replay string) {
	if strings.HasPrefix(replay, "sparse|") {
		p := strings.Split(replay, "|")
		n, _ := strconv.Atoi(p[1])
		e2eSparse(o, "replay", protocol.SerializeType(n), p[2])
		return
	}
	if replay == "" {
		k := 0
		for _, ser := range []protocol.SerializeType{protocol.JSON, protocol.MsgPack} {
			for _, m := range []string{"Plain", "Pooled", "ByValue"} {
				k++
				e2eSparse(o, fmt.Sprintf("sp%d", k), ser, m)
			}
		}
	}
	sers := []protocol.SerializeType{protocol.SerializeNone, protocol.JSON, protocol.ProtoBuffer, protocol.MsgPack, protocol.Thrift}
	cts := []protocol.CompressType{protocol.None, protocol.Gzip}
	sizes := []int{0, 1, 700, 760, 770, 1000, 1010, 1015, 1020, 1023, 1024, 1025, 1030, 5000, 65536}
	big := []int{1 << 20}
	nets := []string{"mem", "tcp", "unix", "http", "ws"}
	n := 0
	emit := func(id, model, impl string, fails []string, line string) {
		o.Case(id, model, impl, true)
		for _, f := range fails {
			o.Fail(id, f[:strings.Index(f, ":")], f, line)
		}
	}
	for _, network := range nets {
		rig, err := newE2ERig(network)
		if err != nil {
			o.Fail("rig-"+network, "rig", "cannot start the "+network+" server: "+err.Error(), network)
			continue
		}
		for _, ser := range sers {
			for _, ct := range cts {
				cl, err := rig.client(ser, ct)
				if err != nil {
					o.Fail("rig-"+network, "rig", "cannot connect over "+network+": "+err.Error(), network)
					continue
				}
				szs := sizes
				switch {
				case tier == "thorough":
					szs = append(append([]int(nil), sizes...), big...)
				case network == "mem":
					szs = append(append([]int(nil), sizes...), 200000)
				default:
					szs = []int{0, 1, 1010, 1030, 5000, 40000}
				}
				// sequential calls: every size, random metadata, sometimes one-way, sometimes a used Reply
				for _, sz := range szs {
					k := e2eCall{ser: ser, ct: ct, size: sz, meta: genMeta9(r), ow: r.Chance(10), stale: r.Chance(50)}
					id := fmt.Sprintf("s%d", n)
					n++
					line := fmt.Sprintf("e2e|%s|%d|%d|%d|%v|%v", network, ser, ct, sz, k.ow, k.stale)
					o.Begin(id, line)
					model, impl, fails := e2eDo(rig, cl, k, r, network == "mem")
					emit(id, model, impl, fails, line)
					o.Count("net=" + network)
					o.Count(fmt.Sprintf("ser=%d", ser))
					o.Count(fmt.Sprintf("ct=%d", ct))
					switch {
					case sz <= 1024:
						o.Count("size<=1024")
					default:
						o.Count("size>1024")
					}
					if k.ow {
						o.Count("one-way")
					}
				}
				// a call whose arguments the codec cannot encode (it carries metadata), then a call that sends none: the
				// handler sees no metadata
				{
					id := fmt.Sprintf("s%d", n)
					n++
					line := fmt.Sprintf("e2eenc|%s|%d|%d", network, ser, ct)
					o.Begin(id, line)
					if bad := e2eAfterEncodeFailure(rig, cl, ser); bad != "" {
						o.Fail(id, "metadata-differs", bad, line)
					}
					o.ImplOnly(id, line, true)
					o.Count("call-after-an-encode-failure")
				}
				// concurrent callers on the same connection
				callers, per := 6, 4
				if tier == "thorough" {
					callers, per = 12, 10
				}
				type res struct {
					model, impl string
					fails       []string
				}
				out := make(chan res, callers*per)
				var mu sync.Mutex
				var wg sync.WaitGroup
				for g := 0; g < callers; g++ {
					seeds := make([]e2eCall, per)
					for i := range seeds {
						sz := sizes[r.Intn(len(sizes))]
						if sz > 5000 && tier != "thorough" {
							sz = 5000 + r.Intn(3000)
						}
						seeds[i] = e2eCall{ser: ser, ct: ct, size: sz, meta: genMeta9(r), stale: r.Chance(50)}
					}
					wg.Add(1)
					go func(ks []e2eCall) {
						defer wg.Done()
						for _, k := range ks {
							mu.Lock() // the id counter only; the call itself runs unlocked
							mu.Unlock()
							m, im, f := e2eDoConc(rig, cl, k, &mu)
							out <- res{m, im, f}
						}
					}(seeds)
				}
				wg.Wait()
				close(out)
				for x := range out {
					id := fmt.Sprintf("c%d", n)
					n++
					emit(id, x.model, x.impl, x.fails, fmt.Sprintf("e2e-concurrent|%s|%d|%d", network, ser, ct))
					o.Count("concurrent-call")
				}
				cl.Close()
			}
		}
		rig.cleanup()
	}
	_ = replay
}

// the concurrent variant: ids are drawn under a lock, nothing is tapped
func e2eDoConc(rig *e2eRig, cl *client.Client, k e2eCall, mu *sync.Mutex) (string, string, []string) {
	mu.Lock()
	e2eSeq++
	my := e2eSeq
	mu.Unlock()
	cid := fmt.Sprintf("c%d", my)
	pad := bytes.Repeat([]byte{'x'}, k.size)
	args, reply, want := e2eArgs(k.ser, my, pad)
	if k.stale {
		e2eStale(reply)
	}
	meta := map[string]string{"cid": cid}
	for mk, mv := range k.meta {
		meta[mk] = mv
	}
	resMeta := map[string]string{}
	ctx := context.WithValue(context.Background(), share.ReqMetaDataKey, meta)
	ctx = context.WithValue(ctx, share.ResMetaDataKey, resMeta)
	codec := share.Codecs[k.ser]
	argsEnc, _ := codec.Encode(args)
	wantEnc, _ := codec.Encode(want)
	var fails []string
	c2, cancel := context.WithTimeout(ctx, 30*time.Second)
	svc := "E2E"
	if k.size%2 == 1 {
		svc = "E2EF" // every other concurrent call goes to the function-style registration
	}
	err := cl.Call(c2, svc, e2eMethod[k.ser], args, reply)
	cancel()
	if err != nil {
		fails = append(fails, fmt.Sprintf("call-failed: %s %s ser=%d ct=%d size=%d (concurrent): %v", rig.network, svc, k.ser, k.ct, k.size, err))
	}
	hview := "hview=none"
	if obs, ok := rig.st.get(cid, 3*time.Second); ok {
		oe, _ := codec.Encode(obs.args)
		hview = fmt.Sprintf("hview=%s|%s", lenMd5(oe), metaSorted(obs.meta))
		if !bytes.Equal(oe, argsEnc) {
			fails = append(fails, fmt.Sprintf("args-differ: %s ser=%d ct=%d size=%d (concurrent)", rig.network, k.ser, k.ct, k.size))
		}
		if metaSorted(obs.meta) != metaSorted(meta) {
			fails = append(fails, fmt.Sprintf("reqmeta-differ: %s ser=%d ct=%d (concurrent)", rig.network, k.ser, k.ct))
		}
	} else {
		fails = append(fails, fmt.Sprintf("handler-not-run: %s ser=%d ct=%d size=%d (concurrent)", rig.network, k.ser, k.ct, k.size))
	}
	re, _ := codec.Encode(canonV(reply))
	impl := hview + fmt.Sprintf(" cview=%s|%s", lenMd5(re), metaSorted(resMeta, share.ServerAddress))
	if !bytes.Equal(re, wantEnc) {
		fails = append(fails, fmt.Sprintf("reply-differ: %s ser=%d ct=%d size=%d (concurrent)", rig.network, k.ser, k.ct, k.size))
	}
	if metaSorted(resMeta, share.ServerAddress) != metaSorted(resMetaFor(meta)) {
		fails = append(fails, fmt.Sprintf("resmeta-differ: %s ser=%d ct=%d (concurrent)", rig.network, k.ser, k.ct))
	}
	model := fmt.Sprintf("e2e %d %d 0 0 %s %s %s %s - 0 %s %s -", k.ser, k.ct,
		hex.EncodeToString([]byte(svc)), hex.EncodeToString([]byte(e2eMethod[k.ser])), mapTok(meta),
		hexOrDash(argsEnc), hexOrDash(wantEnc), mapTok(resMetaFor(meta)))
	return model, impl, fails
}
