package main

import (
	"bytes"
	"fmt"
	"strconv"
	"strings"

	"github.com/smallnest/rpcx/protocol"
	"github.com/smallnest/rpcx/util"

	"verifharness/internal/common"
	"verifharness/internal/refcodec"
)

func init() { props["C01"] = runC01 }

type c01msg struct {
	h       [12]byte
	path    []byte
	meth    []byte
	meta    map[string]string
	payload []byte
}

// abstract case: enc|<hdr>|<path>|<meth>|k:v,k:v|<payload>   or   hdr|<hdr>|op|val
func (m *c01msg) abstract() string {
	var kv []string
	for k, v := range m.meta {
		kv = append(kv, hx([]byte(k))+":"+hx([]byte(v)))
	}
	// sorted for a stable replay string
	sortStrings(kv)
	ms := "-"
	if len(kv) > 0 {
		ms = strings.Join(kv, ",")
	}
	return fmt.Sprintf("enc|%s|%s|%s|%s|%s", hx(m.h[:]), hx(m.path), hx(m.meth), ms, hx(m.payload))
}

func sortStrings(s []string) {
	for i := 1; i < len(s); i++ {
		for j := i; j > 0 && s[j] < s[j-1]; j-- {
			s[j], s[j-1] = s[j-1], s[j]
		}
	}
}

func c01parse(s string) *c01msg {
	p := strings.Split(s, "|")
	m := &c01msg{meta: map[string]string{}}
	copy(m.h[:], unhx(p[1]))
	m.path, m.meth = unhx(p[2]), unhx(p[3])
	if p[4] != "-" {
		for _, e := range strings.Split(p[4], ",") {
			kv := strings.SplitN(e, ":", 2)
			m.meta[string(unhx(kv[0]))] = string(unhx(kv[1]))
		}
	}
	m.payload = unhx(p[5])
	return m
}

func (m *c01msg) build() *protocol.Message {
	msg := protocol.NewMessage()
	*msg.Header = protocol.Header(m.h)
	msg.ServicePath = string(m.path)
	msg.ServiceMethod = string(m.meth)
	if len(m.meta) > 0 {
		msg.Metadata = map[string]string{}
		for k, v := range m.meta {
			msg.Metadata[k] = v
		}
	}
	msg.Payload = append([]byte{}, m.payload...)
	return msg
}

func metaOrderSpec(f *refcodec.Frame) string {
	if len(f.Meta) == 0 {
		return "-"
	}
	parts := make([]string, 0, len(f.Meta))
	for _, kv := range f.Meta {
		parts = append(parts, hx(kv.K)+":"+hx(kv.V))
	}
	return strings.Join(parts, ",")
}

// zip spec for the model: what the registered compressor of this compress type returns
func zipSpec(ct int, payload []byte) string {
	if ct == 0 {
		return "N"
	}
	c := protocol.Compressors[protocol.CompressType(ct)]
	if c == nil {
		return "U"
	}
	z, err := c.Zip(append([]byte{}, payload...))
	if err != nil {
		return "E"
	}
	return hx(append([]byte{}, z...))
}

// decoded messages kept by their receiver while the library goes on encoding and decoding other messages
type c01Kept struct {
	msg      *protocol.Message
	was      string
	abstract string
	enc      string
}

var c01Held []c01Kept

func c01Keep(o *common.Out, got *protocol.Message, abstract, enc string) {
	for _, k := range c01Held {
		if now := showMsg(k.msg); now != k.was {
			o.Fail("held", "decoded-message-changed-later", fmt.Sprintf("a message decoded earlier (%s encoder) read {%s} then and reads {%s} after later messages were processed", k.enc, k.was, now), k.abstract)
			c01Held = nil
			break
		}
	}
	if len(got.Payload) > 0 && len(got.Payload) < 1<<16 {
		c01Held = append(c01Held, c01Kept{got, showMsg(got), abstract, enc})
		if len(c01Held) > 6 {
			c01Held = c01Held[1:]
		}
	}
}

func c01Enc(o *common.Out, id string, m *c01msg) {
	abstract := m.abstract()
	o.Begin(id, abstract)
	ct := compressOf(m.h)
	zs := zipSpec(ct, m.payload)
	registered := ct == 0 || protocol.Compressors[protocol.CompressType(ct)] != nil
	o.Count(fmt.Sprintf("compress=%d", ct))
	o.Count(fmt.Sprintf("payload<=%d", sizeClass(len(m.payload))))
	o.Count(fmt.Sprintf("meta=%d", len(m.meta)))

	// --- pooled encoder ---
	msg := m.build()
	data := msg.EncodeSlicePointer()
	frameP := append([]byte{}, (*data)...)
	// dirty the pooled buffer before returning it, so that a later Get hands out non-zero bytes
	for i := range *data {
		(*data)[i] = 0xAB
	}
	protocol.PutData(data)
	fp, perr := refcodec.Parse(frameP)
	if perr != nil {
		o.Fail(id, "encode-malformed", "pooled encoder produced a frame the reference parser rejects: "+perr.Error(), abstract)
		o.Case(id+"p", "encp "+strings.Join([]string{hx(m.h[:]), hx(m.path), hx(m.meth), "-", hx(m.payload), zs}, " "), show(frameP), true)
	} else {
		o.Case(id+"p", "encp "+strings.Join([]string{hx(m.h[:]), hx(m.path), hx(m.meth), metaOrderSpec(fp), hx(m.payload), zs}, " "),
			show(frameP), len(m.meta) > 0 || len(m.payload) > 0)
	}
	// --- streaming encoder ---
	msg2 := m.build()
	var buf bytes.Buffer
	_, werr := msg2.WriteTo(&buf)
	frameS := append([]byte{}, buf.Bytes()...)
	sobs := show(frameS)
	if werr != nil {
		if werr == protocol.ErrUnsupportedCompressor {
			sobs += " ERR UnsupportedCompressor"
		} else {
			sobs += " ERR ZipError"
		}
	}
	order := "-"
	if fs, e := refcodec.Parse(frameS); e == nil {
		order = metaOrderSpec(fs)
	} else if werr == nil {
		o.Fail(id, "encode-malformed", "streaming encoder produced a frame the reference parser rejects: "+e.Error(), abstract)
	}
	if werr != nil {
		// the model needs some metadata order even though nothing after the header was written
		order = "-"
		if len(m.meta) > 0 {
			var parts []string
			for k, v := range m.meta {
				parts = append(parts, hx([]byte(k))+":"+hx([]byte(v)))
			}
			order = strings.Join(parts, ",")
		}
	}
	o.Case(id+"s", "encs "+strings.Join([]string{hx(m.h[:]), hx(m.path), hx(m.meth), order, hx(m.payload), zs}, " "), sobs, true)

	// --- property oracle: Decode(Encode(m)) == m for both encoders; encoders agree ---
	if !registered {
		return // outside the property's quantifier (unsupported compression type)
	}
	for _, enc := range []struct {
		name  string
		frame []byte
	}{{"pooled", frameP}, {"stream", frameS}} {
		trailer := []byte{0xde, 0xad, 0xbe, 0xef}
		rd := bytes.NewReader(append(append([]byte{}, enc.frame...), trailer...))
		got, err := protocol.Read(rd)
		if err != nil {
			o.Fail(id, "roundtrip-error", fmt.Sprintf("%s: Read(Encode(m)) failed: %v", enc.name, err), abstract)
			continue
		}
		if rd.Len() != len(trailer) {
			o.Fail(id, "roundtrip-consumed", fmt.Sprintf("%s: reader left with %d bytes after the frame, want %d", enc.name, rd.Len(), len(trailer)), abstract)
		}
		// the decoded message is the receiver's: it is looked at again after later messages were encoded and decoded
		c01Keep(o, got, abstract, enc.name)
		want := m.build()
		if !bytes.Equal(got.Header[:], want.Header[:]) || got.ServicePath != want.ServicePath ||
			got.ServiceMethod != want.ServiceMethod || !bytes.Equal(got.Payload, want.Payload) ||
			showMetaMap(got.Metadata) != showMetaMap(want.Metadata) {
			o.Fail(id, "roundtrip-differs", fmt.Sprintf("%s: decoded {%s} want {%s}", enc.name, showMsg(got), showMsg(want)), abstract)
		}
	}
	if fp != nil {
		if fs, e := refcodec.Parse(frameS); e == nil {
			if !bytes.Equal(fp.Header[:], fs.Header[:]) || !bytes.Equal(fp.Path, fs.Path) || !bytes.Equal(fp.Method, fs.Method) ||
				!bytes.Equal(fp.Raw, fs.Raw) || showMetaMap(refcodec.MetaMap(fp.Meta)) != showMetaMap(refcodec.MetaMap(fs.Meta)) ||
				fp.Total != fs.Total || fp.Slack != 0 || fs.Slack != 0 {
				o.Fail(id, "encoders-disagree", "pooled and streaming encoders produced different frames", abstract)
			}
		}
	}
}

func sizeClass(n int) int {
	for _, c := range []int{0, 1, 64, 1024, 4096, 65536} {
		if n <= c {
			return c
		}
	}
	return 1 << 24
}

var hdrOps = []struct {
	name string
	max  uint64
}{{"version", 256}, {"type", 2}, {"hb", 2}, {"ow", 2}, {"compress", 8}, {"status", 4}, {"serialize", 16}}

func hdrView(h *protocol.Header) string {
	b := func(x bool) string {
		if x {
			return "1"
		}
		return "0"
	}
	return fmt.Sprintf("%s v=%d t=%d hb=%s ow=%s c=%d st=%d ser=%d seq=%s", show(h[:]), h.Version(), h.MessageType(),
		b(h.IsHeartbeat()), b(h.IsOneway()), h.CompressType(), h.MessageStatusType(), h.SerializeType(), show(h[4:]))
}

func hdrApply(h *protocol.Header, op string, v uint64) {
	switch op {
	case "version":
		h.SetVersion(byte(v))
	case "type":
		h.SetMessageType(protocol.MessageType(v))
	case "hb":
		h.SetHeartbeat(v == 1)
	case "ow":
		h.SetOneway(v == 1)
	case "compress":
		h.SetCompressType(protocol.CompressType(v))
	case "status":
		h.SetMessageStatusType(protocol.MessageStatusType(v))
	case "serialize":
		h.SetSerializeType(protocol.SerializeType(v))
	case "seq":
		h.SetSeq(v)
	}
}

type hview struct {
	magic                        byte
	version                      byte
	typ, compress, status, ser   int
	hb, ow                       bool
	reserved                     byte
	seq                          uint64
}

func viewOf(h *protocol.Header) hview {
	return hview{h[0], h.Version(), int(h.MessageType()), int(h.CompressType()), int(h.MessageStatusType()), int(h.SerializeType()),
		h.IsHeartbeat(), h.IsOneway(), h[3] & 0x0f, h.Seq()}
}

// oracle: after Set<op>(v) the view equals the old view with exactly that field replaced by v
func hdrOracle(o *common.Out, id string, h0 protocol.Header, op string, v uint64) bool {
	h := h0
	before := viewOf(&h)
	hdrApply(&h, op, v)
	want := before
	switch op {
	case "version":
		want.version = byte(v)
	case "type":
		want.typ = int(v)
	case "hb":
		want.hb = v == 1
	case "ow":
		want.ow = v == 1
	case "compress":
		want.compress = int(v)
	case "status":
		want.status = int(v)
	case "serialize":
		want.ser = int(v)
	case "seq":
		want.seq = v
	}
	if viewOf(&h) != want {
		o.Fail(id, "header-accessor-"+op, fmt.Sprintf("header %x Set(%s,%d): view %+v want %+v", h0[:], op, v, viewOf(&h), want),
			fmt.Sprintf("hdr|%s|%s|%d", hx(h0[:]), op, v))
		return false
	}
	return true
}

// c01Big: round trip of a message whose payload is far beyond what is worth handing to the model as a byte list
// (several MiB): property oracle only - Read(Encode(m)) = m for both encoders.
func c01Big(o *common.Out, id string, size, ct int, seed uint64, maxlen int) {
	abstract := fmt.Sprintf("big|%d|%d|%d|%d", size, ct, seed, maxlen)
	// MaxMessageLength limits the FRAME a reader accepts; a compressed payload may inflate beyond it
	protocol.MaxMessageLength = maxlen
	defer func() { protocol.MaxMessageLength = 0 }()
	o.Begin(id, abstract)
	rr := common.NewRand(seed)
	// compressible but not trivial: a random 4 KiB block repeated with a counter stamped into each copy
	block := rr.Bytes(4096)
	payload := make([]byte, size)
	for off := 0; off < size; off += len(block) {
		n := copy(payload[off:], block)
		if n >= 4 {
			payload[off], payload[off+1], payload[off+2] = byte(off>>12), byte(off>>20), byte(off>>28)
		}
	}
	build := func() *protocol.Message {
		m := protocol.NewMessage()
		m.SetMessageType(protocol.Request)
		m.SetSerializeType(protocol.SerializeNone)
		m.SetCompressType(protocol.CompressType(ct))
		m.SetSeq(seed)
		m.ServicePath, m.ServiceMethod = "Big", "Echo"
		m.Metadata = map[string]string{"k": "v"}
		m.Payload = payload
		return m
	}
	check := func(name string, frame []byte) {
		got, err := protocol.Read(bytes.NewReader(frame))
		if err != nil {
			o.Fail(id, "roundtrip-error", fmt.Sprintf("%s: Read(Encode(m)) failed for a %d-byte payload, compress type %d: %v", name, size, ct, err), abstract)
			return
		}
		if !bytes.Equal(got.Payload, payload) || got.ServicePath != "Big" || got.ServiceMethod != "Echo" || got.Metadata["k"] != "v" || got.Seq() != seed {
			o.Fail(id, "roundtrip-differs", fmt.Sprintf("%s: a %d-byte payload (compress type %d) decoded to %d bytes (md5 %s, want %s)", name, size, ct,
				len(got.Payload), show(got.Payload), show(payload)), abstract)
		}
	}
	data := build().EncodeSlicePointer()
	check("pooled", append([]byte{}, (*data)...))
	protocol.PutData(data)
	var buf bytes.Buffer
	if _, err := build().WriteTo(&buf); err != nil {
		o.Fail(id, "roundtrip-error", fmt.Sprintf("stream: WriteTo failed: %v", err), abstract)
	} else {
		check("stream", buf.Bytes())
	}
	o.ImplOnly(id, abstract, true)
	o.Count(fmt.Sprintf("compress=%d", ct))
	o.Count("payload<=big")
}

func runC01(r *common.Rand, tier string, o *common.Out, replay string) {
	// a second registered compressor besides gzip, as the property quantifies over "any registered compressor"
	protocol.Compressors[protocol.CompressType(2)] = &protocol.SnappyCompressor{}
	_ = util.Zip
	if replay != "" {
		if strings.HasPrefix(replay, "hdr|") {
			p := strings.Split(replay, "|")
			var h protocol.Header
			copy(h[:], unhx(p[1]))
			v, _ := strconv.ParseUint(p[3], 10, 64)
			hdrOracle(o, "replay", h, p[2], v)
			h2 := h
			hdrApply(&h2, p[2], v)
			o.Case("replay", fmt.Sprintf("hdr %s %s %d", hx(h[:]), p[2], v), hdrView(&h2), true)
			return
		}
		if strings.HasPrefix(replay, "big|") {
			p := strings.Split(replay, "|")
			size, _ := strconv.Atoi(p[1])
			ct, _ := strconv.Atoi(p[2])
			seed, _ := strconv.ParseUint(p[3], 10, 64)
			maxlen := 0
			if len(p) > 4 {
				maxlen, _ = strconv.Atoi(p[4])
			}
			c01Big(o, "replay", size, ct, seed, maxlen)
			return
		}
		c01Enc(o, "replay", c01parse(replay))
		return
	}
	// (1) exhaustive sweep of the two flag bytes x every field value on the real Header (oracle only)
	sweep := 0
	ok := true
	for b2 := 0; b2 < 256 && ok; b2++ {
		for b3 := 0; b3 < 256 && ok; b3++ {
			var h protocol.Header
			h[0] = 8
			h[1] = byte(b2 ^ b3)
			h[2], h[3] = byte(b2), byte(b3)
			h[4], h[11] = byte(b3), byte(b2)
			for _, op := range hdrOps {
				if op.name == "version" {
					continue
				}
				for v := uint64(0); v < op.max; v++ {
					sweep++
					if !hdrOracle(o, fmt.Sprintf("sweep-%02x%02x", b2, b3), h, op.name, v) {
						ok = false
					}
				}
			}
		}
	}
	o.Extra["header_sweep_evaluations"] = sweep
	o.Extra["header_sweep_exhaustive_over"] = "all 2^16 values of header bytes 2,3 x {type,hb,ow,compress,status,serialize} x every in-domain value"
	// (1b) sampled header cases against the model
	nh := 1500
	for i := 0; i < nh; i++ {
		var h protocol.Header
		hb := genHeader(r)
		copy(h[:], hb[:])
		var op string
		var v uint64
		if r.Chance(15) {
			op = "seq"
			v = r.U64()
			switch r.Intn(4) {
			case 0:
				v = 0
			case 1:
				v = ^uint64(0)
			}
		} else {
			k := hdrOps[r.Intn(len(hdrOps))]
			op, v = k.name, uint64(r.Intn(int(k.max)))
		}
		id := fmt.Sprintf("h%d", i)
		hdrOracle(o, id, h, op, v)
		h2 := h
		hdrApply(&h2, op, v)
		o.Case(id, fmt.Sprintf("hdr %s %s %d", hx(h[:]), op, v), hdrView(&h2), true)
		o.Count("hdr-" + op)
	}
	// (2,3) messages
	n := 1500
	if tier == "thorough" {
		n = 40000
	}
	defer delete(protocol.Compressors, protocol.CompressType(5))
	for i := 0; i < n; i++ {
		// the registry changes while traffic is flowing: a compressor is registered under type 5 after a third of the
		// messages (compressed ones among them) have gone through the codec, and removed again after two thirds
		if i == n/3 {
			protocol.Compressors[protocol.CompressType(5)] = &protocol.SnappyCompressor{}
		}
		if i == 2*n/3 {
			delete(protocol.Compressors, protocol.CompressType(5))
		}
		m := &c01msg{h: genHeader(r), meta: map[string]string{}}
		switch r.Intn(10) {
		case 0, 1, 2, 3:
			setCompress(&m.h, 0)
		case 4, 5, 6:
			setCompress(&m.h, 1)
		case 7, 8:
			setCompress(&m.h, 2)
		default:
			setCompress(&m.h, 3+r.Intn(5)) // unregistered (type 5: registered for the middle third)
		}
		if i >= n/3 && i < n/3+40 || i >= 2*n/3 && i < 2*n/3+40 {
			setCompress(&m.h, 5) // right after the registry changed
		}
		big := r.Chance(3)
		m.path, m.meth = genField(r, big), genField(r, false)
		nm := r.Intn(5)
		if r.Chance(10) {
			nm = 12
		}
		for k := 0; k < nm; k++ {
			m.meta[string(genField(r, false))] = string(genField(r, big && k == 0))
		}
		m.payload = genPayload(r, tier)
		c01Enc(o, fmt.Sprintf("m%d", i), m)
	}
	// (4) payloads of several MiB, every supported compression type (oracle only)
	bigSizes := []int{1<<20 + 1, 3<<20 + 17}
	if tier == "thorough" {
		bigSizes = []int{1 << 20, 1<<20 + 1, 2<<20 - 1, 3<<20 + 17, 5 << 20, 9<<20 + 3}
	}
	for i, size := range bigSizes {
		for ct := 0; ct <= 2; ct++ {
			c01Big(o, fmt.Sprintf("b%d-%d", i, ct), size, ct, r.U64(), 0)
		}
	}
	// a frame limit is configured and the (compressible) payload is larger than the limit while its frame is not
	for ct := 1; ct <= 2; ct++ {
		c01Big(o, fmt.Sprintf("bl-%d", ct), 300<<10, ct, r.U64(), 64<<10)
	}
}
