package main

import (
	"bytes"
	"context"
	"crypto/sha256"
	"fmt"
	"github.com/smallnest/rpcx/client"
	"github.com/smallnest/rpcx/server"
	"net"
	"strings"
	"sync"
	"time"
	"unsafe"

	"github.com/smallnest/rpcx/protocol"
	"github.com/smallnest/rpcx/util"

	"verifharness/internal/common"
)

func init() { props["C20"] = runC20 }

func fpSweep(min, max int) (string, []string) {
	var fails []string
	var p *util.LimitedPool
	func() {
		defer func() {
			if e := recover(); e != nil {
				fails = append(fails, fmt.Sprintf("pool-panic|NewLimitedPool(%d,%d) panicked: %v", min, max, e))
			}
		}()
		p = util.NewLimitedPool(min, max)
	}()
	if p == nil {
		return "panic", fails
	}
	var sb strings.Builder
	last := ""
	show := func(i int) string {
		if i < 0 {
			return "-"
		}
		return fmt.Sprint(i)
	}
	sizes := util.VerifPoolClassSizes(p)
	for size := 0; size <= max+2; size++ {
		g, pt := util.VerifFindPoolIndex(p, size), util.VerifFindPutPoolIndex(p, size)
		cur := show(g) + "/" + show(pt)
		if cur != last {
			fmt.Fprintf(&sb, "%d:%s ", size, cur)
			last = cur
		}
		// oracle: a request of this size fits the class it is routed to; a buffer of this capacity
		// put into a class is at least as large as what that class allocates
		if g >= 0 && sizes[g] < size {
			fails = append(fails, fmt.Sprintf("class-too-small|min=%d max=%d: Get(%d) is routed to class %d which allocates %d bytes", min, max, size, g, sizes[g]))
		}
		if pt >= 0 && sizes[pt] > size {
			fails = append(fails, fmt.Sprintf("put-too-small|min=%d max=%d: a buffer of capacity %d is put into class %d which serves requests up to %d", min, max, size, pt, sizes[pt]))
		}
	}
	ss := make([]string, len(sizes))
	for i, x := range sizes {
		ss[i] = fmt.Sprint(x)
	}
	return strings.TrimSpace(sb.String()) + " | classes=" + strings.Join(ss, ","), fails
}

// Get/Put histories on one pool: lengths, distinct backing arrays among held buffers, content stability
func poolHistory(r *common.Rand, min, max, steps int) []string {
	var fails []string
	p := util.NewLimitedPool(min, max)
	type held struct {
		b   *[]byte
		fp  [32]byte
		tag byte
	}
	var hs []held
	for i := 0; i < steps; i++ {
		if len(hs) > 0 && r.Chance(45) {
			k := r.Intn(len(hs))
			h := hs[k]
			if sha256.Sum256(*h.b) != h.fp {
				fails = append(fails, fmt.Sprintf("held-buffer-modified|min=%d max=%d: a buffer of %d bytes changed while its holder had not released it", min, max, len(*h.b)))
			}
			p.Put(h.b)
			hs = append(hs[:k], hs[k+1:]...)
			continue
		}
		size := r.Intn(max + max/4 + 2)
		switch r.Intn(6) {
		case 0:
			size = min
		case 1:
			size = max
		case 2:
			size = 0
		}
		var b *[]byte
		func() {
			defer func() {
				if e := recover(); e != nil {
					fails = append(fails, fmt.Sprintf("pool-panic|min=%d max=%d: Get(%d) panicked: %v", min, max, size, e))
				}
			}()
			b = p.Get(size)
		}()
		if b == nil {
			continue
		}
		if len(*b) != size || cap(*b) < size {
			fails = append(fails, fmt.Sprintf("wrong-length|min=%d max=%d: Get(%d) returned len %d cap %d", min, max, size, len(*b), cap(*b)))
		}
		for _, h := range hs {
			if cap(*h.b) > 0 && cap(*b) > 0 && unsafe.Pointer(&(*h.b)[:1][0]) == unsafe.Pointer(&(*b)[:1][0]) {
				fails = append(fails, fmt.Sprintf("buffer-shared|min=%d max=%d: Get(%d) returned a buffer that another holder still has", min, max, size))
			}
		}
		tag := byte(1 + r.Intn(250))
		for j := range *b {
			(*b)[j] = tag + byte(j)
		}
		hs = append(hs, held{b, sha256.Sum256(*b), tag})
	}
	return fails
}

// poolBurst: many buffers of one size class are held at the same time, all are returned, and the same number is taken
// again - several rounds: at no time do two holders have the same buffer.  (Whatever sits between the callers and
// sync.Pool - free lists, rings, caches - is exercised at its capacity limits: depth around 2^k for k up to 12.)
func poolBurst(min, max, size, depth, rounds int) []string {
	var fails []string
	p := util.NewLimitedPool(min, max)
	for round := 0; round < rounds; round++ {
		held := make([]*[]byte, 0, depth)
		seen := make(map[unsafe.Pointer]int, depth)
		for i := 0; i < depth; i++ {
			b := p.Get(size)
			if len(*b) != size {
				fails = append(fails, fmt.Sprintf("wrong-length|min=%d max=%d: Get(%d) returned len %d", min, max, size, len(*b)))
				return fails
			}
			if cap(*b) > 0 {
				k := unsafe.Pointer(&(*b)[:1][0])
				if j, dup := seen[k]; dup {
					fails = append(fails, fmt.Sprintf("buffer-shared|min=%d max=%d: round %d, %d buffers of %d bytes held at once: the %d-th Get returned the buffer the %d-th holder still has", min, max, round, depth, size, i+1, j+1))
					return fails
				}
				seen[k] = i
			}
			held = append(held, b)
		}
		for _, b := range held {
			p.Put(b)
		}
	}
	return fails
}

// results of Encode / Zip / Unzip are held by the caller while the library keeps working
func heldResults(r *common.Rand, workers, rounds int) []string {
	var mu sync.Mutex
	var fails []string
	var wg sync.WaitGroup
	seeds := make([]uint64, workers)
	for i := range seeds {
		seeds[i] = r.U64()
	}
	for w := 0; w < workers; w++ {
		wg.Add(1)
		go func(w int) {
			defer wg.Done()
			rr := common.NewRand(seeds[w])
			type held struct {
				kind string
				data []byte
				fp   [32]byte
				rel  func()
			}
			var hs []held
			for i := 0; i < rounds; i++ {
				payload := bytes.Repeat([]byte{byte(rr.Intn(256))}, rr.Intn(3000))
				if rr.Bool() {
					payload = rr.Bytes(rr.Intn(3000))
				}
				switch rr.Intn(3) {
				case 0:
					m := protocol.NewMessage()
					m.ServicePath, m.ServiceMethod = "P", "M"
					m.Payload = payload
					m.SetSeq(rr.U64())
					d := m.EncodeSlicePointer()
					hs = append(hs, held{"Encode", *d, sha256.Sum256(*d), func() { protocol.PutData(d) }})
				case 1:
					z, err := util.Zip(payload)
					if err == nil {
						hs = append(hs, held{"Zip", z, sha256.Sum256(z), nil})
					}
				default:
					z, err := util.Zip(payload)
					if err == nil {
						u, err := util.Unzip(append([]byte{}, z...))
						if err != nil || !bytes.Equal(u, payload) {
							mu.Lock()
							fails = append(fails, fmt.Sprintf("unzip-mismatch|Unzip(Zip(x)) != x for %d bytes (err=%v)", len(payload), err))
							mu.Unlock()
						} else {
							hs = append(hs, held{"Unzip", u, sha256.Sum256(u), nil})
						}
					}
				}
				if len(hs) > 6 || i == rounds-1 {
					for _, h := range hs {
						if sha256.Sum256(h.data) != h.fp {
							mu.Lock()
							fails = append(fails, fmt.Sprintf("held-result-modified|bytes returned by %s (%d bytes) changed while the caller still held them", h.kind, len(h.data)))
							mu.Unlock()
						}
						if h.rel != nil {
							h.rel()
						}
					}
					hs = nil
				}
			}
		}(w)
	}
	wg.Wait()
	return fails
}

func runC20(r *common.Rand, tier string, o *common.Out, replay string) {
	if replay != "" && strings.HasPrefix(replay, "fpr|") {
		var mn, mx int
		fmt.Sscanf(replay, "fpr|%d|%d", &mn, &mx)
		obs, fails := fpSweep(mn, mx)
		for _, f := range fails {
			p := strings.SplitN(f, "|", 2)
			o.Fail("replay", p[0], p[1], replay)
		}
		o.Case("replay", fmt.Sprintf("fpr %d %d", mn, mx), obs, true)
		return
	}
	if strings.HasPrefix(replay, "burst|") {
		var mn, mx, size, depth int
		fmt.Sscanf(replay, "burst|%d|%d|%d|%d", &mn, &mx, &size, &depth)
		for _, f := range poolBurst(mn, mx, size, depth, 3) {
			p := strings.SplitN(f, "|", 2)
			o.Fail("replay", p[0], p[1], replay)
		}
		o.ImplOnly("replay", replay, true)
		return
	}
	if strings.HasPrefix(replay, "zipown|") {
		p := strings.Split(replay, "|")
		var lv, sz int
		fmt.Sscan(p[1], &lv)
		fmt.Sscan(p[2], &sz)
		kind := "gzip"
		if len(p) > 3 {
			kind = p[3]
		}
		zipOwnCaseOf(o, "replay", kind, lv, sz, "returned-bytes-modified")
		return
	}
	if replay != "" {
		runSrv("C20", r, tier, o, replay)
		return
	}
	// compressed payloads belong to whoever asked for them, until released
	zipOwnProbeOf(o, "returned-bytes-modified")
	// (1) size classes: exhaustive over every size 0..max+2 for 40 configurations
	cfgs := [][2]int{{512, 4096}, {1, 1}, {1, 2}, {1, 1024}, {2, 3}, {3, 3}, {3, 100}, {7, 1000}, {16, 16}, {16, 17}, {500, 3000}, {512, 512},
		{512, 513}, {512, 1023}, {512, 1024}, {512, 1025}, {100, 6400}, {100, 6399}, {100, 6401}, {1000, 1001}, {5, 5000}, {6, 96}, {6, 97},
		{10, 10240}, {64, 4096}, {65, 4097}, {63, 4095}, {1024, 8192}, {1023, 8191}, {33, 8000}}
	for len(cfgs) < 40 {
		mn := 1 + r.Intn(700)
		cfgs = append(cfgs, [2]int{mn, mn + r.Intn(6000)})
	}
	for i, c := range cfgs {
		id := fmt.Sprintf("fp%d", i)
		abstract := fmt.Sprintf("fpr|%d|%d", c[0], c[1])
		o.Begin(id, abstract)
		obs, fails := fpSweep(c[0], c[1])
		for _, f := range fails {
			p := strings.SplitN(f, "|", 2)
			o.Fail(id, p[0], p[1], abstract)
		}
		o.Case(id, fmt.Sprintf("fpr %d %d", c[0], c[1]), obs, c[1] > c[0])
		o.Count("size-class-sweep")
		o.Extra["size_class_sweep_evaluations"] = addInt(o.Extra["size_class_sweep_evaluations"], c[1]+3)
	}
	// (2) Get/Put histories with content fingerprints (oracle only)
	nh := 300
	if tier == "thorough" {
		nh = 8000
	}
	for i := 0; i < nh; i++ {
		c := cfgs[r.Intn(len(cfgs))]
		id := fmt.Sprintf("gp%d", i)
		abstract := fmt.Sprintf("getput|%d|%d", c[0], c[1])
		o.Begin(id, abstract)
		for _, f := range poolHistory(r, c[0], c[1], 40) {
			p := strings.SplitN(f, "|", 2)
			o.Fail(id, p[0], p[1], abstract)
		}
		o.ImplOnly(id, fmt.Sprintf("%s#%d", abstract, i), true)
		o.Count("get-put-history")
	}
	// (2b) bursts: many buffers of one class outstanding at once, returned, taken again
	for bi, depth := range []int{63, 64, 65, 255, 256, 257, 1023, 1024, 1025, 1026, 2049, 4097} {
		id := fmt.Sprintf("burst%d", bi)
		abstract := fmt.Sprintf("burst|512|4096|%d|%d", 600+bi, depth)
		o.Begin(id, abstract)
		for _, f := range poolBurst(512, 4096, 600+bi, depth, 3) {
			p := strings.SplitN(f, "|", 2)
			o.Fail(id, p[0], p[1], abstract)
		}
		o.ImplOnly(id, abstract, true)
		o.Count("pool-burst")
	}
	// (3) Encode / Zip / Unzip results held across concurrent library activity (oracle only)
	rounds := 150
	if tier == "thorough" {
		rounds = 3000
	}
	o.Begin("held", "held-results")
	for _, f := range heldResults(r, 16, rounds) {
		p := strings.SplitN(f, "|", 2)
		o.Fail("held", p[0], p[1], "held-results|16 workers")
	}
	o.ImplOnly("held", "held-results|16 workers", true)
	o.Count("held-results-run")
	// (4) bytes handed to a caller of the client (raw-bytes replies, server messages) held across later calls
	for i := 0; i < 6; i++ {
		id := fmt.Sprintf("hold%d", i)
		abstract := fmt.Sprintf("client-held|%d", i)
		o.Begin(id, abstract)
		for _, f := range clientHeld(i) {
			p := strings.SplitN(f, "|", 2)
			o.Fail(id, p[0], p[1], abstract)
		}
		o.ImplOnly(id, abstract, true)
		o.Count("client-held-replies")
	}
	// (5) pooled argument / reply objects of the server under forced pool-reuse schedules
	runSrv("C20", r, tier, o, "")
}

// RawEcho answers raw bytes with raw bytes
type RawEcho struct{}

func (t *RawEcho) Fill(ctx context.Context, a *[]byte, r *[]byte) error {
	out := make([]byte, len(*a))
	for i := range out {
		out[i] = (*a)[0]
	}
	*r = out
	return nil
}

// a raw-bytes reply handed to a caller stays what it was while later replies of the same and of smaller sizes arrive
func clientHeld(variant int) []string {
	var fails []string
	srv := server.NewServer()
	srv.RegisterName("RawEcho", &RawEcho{}, "")
	ln := newPipeListener()
	go srv.ServeListener("vpipe", ln)
	<-srv.Started
	defer func() { srv.Close(); ln.Close() }()
	client.ConnFactories["vhold"] = func(c *client.Client, network, address string) (net.Conn, error) { return ln.dial() }
	opt := client.DefaultOption
	opt.SerializeType = protocol.SerializeNone
	opt.Heartbeat = false
	if variant%2 == 1 {
		opt.CompressType = protocol.Gzip
	}
	cl := client.NewClient(opt)
	if err := cl.Connect("vhold", "x"); err != nil {
		return []string{"rig|" + err.Error()}
	}
	defer cl.Close()
	sizes := [][]int{{64, 64, 64}, {32, 24, 16}, {2000, 1500, 100}, {1, 1, 1}, {300, 300, 20}, {1030, 1030, 1030}}[variant%6]
	var held [][]byte
	for k, n := range sizes {
		arg := bytes.Repeat([]byte{byte('A' + k)}, n)
		var reply []byte
		ctx, cancel := context.WithTimeout(context.Background(), 3*time.Second)
		err := cl.Call(ctx, "RawEcho", "Fill", &arg, &reply)
		cancel()
		if err != nil {
			return append(fails, fmt.Sprintf("call-failed|raw call %d: %v", k, err))
		}
		held = append(held, reply)
	}
	for k, rep := range held {
		want := bytes.Repeat([]byte{byte('A' + k)}, sizes[k])
		if !bytes.Equal(rep, want) {
			fails = append(fails, fmt.Sprintf("held-reply-modified|the reply of call %d (%d bytes of %q), still held by its caller, was changed by later replies on the connection", k, sizes[k], string(rune('A'+k))))
		}
	}
	return fails
}

func addInt(x interface{}, n int) int {
	if v, ok := x.(int); ok {
		return v + n
	}
	return n
}
