package main

import (
	"bytes"
	"crypto/md5"
	"encoding/hex"
	"errors"
	"fmt"
	"io"
	"sort"
	"strings"

	"github.com/smallnest/rpcx/protocol"

	"verifharness/internal/common"
	"verifharness/internal/refcodec"
)

func hx(b []byte) string {
	if len(b) == 0 {
		return "-"
	}
	return hex.EncodeToString(b)
}

func unhx(s string) []byte {
	if s == "-" || s == "" {
		return nil
	}
	b, err := hex.DecodeString(s)
	if err != nil {
		panic(err)
	}
	return b
}

// show: hex, or #len:md5 when long (same rule as ocaml/conv.ml show_raw)
func show(b []byte) string {
	if len(b) <= 64 {
		return hx(b)
	}
	s := md5.Sum(b)
	return fmt.Sprintf("#%d:%s", len(b), hex.EncodeToString(s[:]))
}

func showMetaMap(m map[string]string) string {
	if len(m) == 0 {
		return "-"
	}
	keys := make([]string, 0, len(m))
	for k := range m {
		keys = append(keys, k)
	}
	sort.Strings(keys)
	parts := make([]string, 0, len(keys))
	for _, k := range keys {
		parts = append(parts, show([]byte(k))+":"+show([]byte(m[k])))
	}
	return strings.Join(parts, ",")
}

func showMsg(m *protocol.Message) string {
	return fmt.Sprintf("%s %s %s %s %s", show(m.Header[:]), show([]byte(m.ServicePath)), show([]byte(m.ServiceMethod)),
		showMetaMap(m.Metadata), show(m.Payload))
}

func showRef(f *refcodec.Frame, payload []byte) string {
	return fmt.Sprintf("%s %s %s %s %s", show(f.Header[:]), show(f.Path), show(f.Method),
		showMetaMap(refcodec.MetaMap(f.Meta)), show(payload))
}

// error class of a Decode error (a small enum; message text is not compared)
func decErrClass(err error) string {
	switch {
	case err == nil:
		return "nil"
	case errors.Is(err, io.EOF):
		return "EOF"
	case errors.Is(err, io.ErrUnexpectedEOF):
		return "UnexpectedEOF"
	case errors.Is(err, protocol.ErrMessageTooLong):
		return "TooLong"
	case errors.Is(err, protocol.ErrMetaKVMissing):
		return "MetaKVMissing"
	case errors.Is(err, protocol.ErrUnsupportedCompressor):
		return "UnsupportedCompressor"
	case strings.Contains(err.Error(), "section length exceeds frame length"):
		// protocol.ErrInvalidFrame, matched by its text so that the harness still builds (and can look for
		// a failing input) against a tree that does not have it
		return "InvalidFrame"
	case strings.HasPrefix(err.Error(), "wrong magic number"):
		return "BadMagic"
	case strings.HasPrefix(err.Error(), "invalid message:"):
		return "RecoveredPanic"
	default:
		return "UnzipError" // the only other source of errors in Decode is compressor.Unzip
	}
}

// interesting byte strings for paths, methods, metadata keys and values
func genField(r *common.Rand, allowBig bool) []byte {
	switch r.Intn(12) {
	case 0:
		return nil
	case 1:
		return []byte{byte(r.Intn(256))}
	case 2:
		return []byte{0xff, 0xfe, 0x80, 0xc3, 0x28} // not UTF-8
	case 3:
		return bytes.Repeat([]byte{0}, 1+r.Intn(9))
	case 4:
		return bytes.Repeat([]byte{0xff}, 1+r.Intn(9))
	case 5:
		return r.Bytes(300)
	case 6:
		if allowBig {
			return r.Bytes(70 * 1024)
		}
		return r.Bytes(40)
	case 7:
		return []byte("Arith")
	case 8:
		return []byte("Mul")
	default:
		return r.Bytes(1 + r.Intn(24))
	}
}

var payloadSizes = []int{0, 1, 2, 7, 511, 512, 513, 1023, 1024, 1025, 4095, 4096, 4097}

func genPayload(r *common.Rand, tier string) []byte {
	n := payloadSizes[r.Intn(len(payloadSizes))]
	if r.Chance(4) {
		n = 64 * 1024
	}
	if tier == "thorough" && r.Chance(1) {
		n = 1 << 20
	}
	if r.Chance(30) {
		n = r.Intn(64)
	}
	if r.Chance(50) {
		return bytes.Repeat([]byte{byte(r.Intn(256))}, n) // compressible
	}
	return r.Bytes(n)
}

func genHeader(r *common.Rand) [12]byte {
	var h [12]byte
	h[0] = 0x08
	copy(h[1:], r.Bytes(11))
	switch r.Intn(4) {
	case 0:
		h[2], h[3] = 0, 0
	case 1:
		h[2], h[3] = 0xff, 0xff
	}
	switch r.Intn(4) { // sequence number boundaries
	case 0:
		copy(h[4:], []byte{0, 0, 0, 0, 0, 0, 0, 0})
	case 1:
		copy(h[4:], []byte{0xff, 0xff, 0xff, 0xff, 0xff, 0xff, 0xff, 0xff})
	}
	return h
}

func setCompress(h *[12]byte, ct int) { h[2] = (h[2] &^ 0x1c) | byte(ct<<2) }
func compressOf(h [12]byte) int       { return int(h[2]&0x1c) >> 2 }
