package main

// C15 (rejections never reach a handler, on any ingress) and C19 (HTTP gateway / JSON-RPC equal the
// native protocol): a real server on loopback TCP (so the port multiplexer and both HTTP front ends
// are running), one fresh connection per request and per ingress.

import (
	"sync"
	"bufio"
	"bytes"
	"context"
	"encoding/binary"
	"encoding/json"
	"errors"
	"fmt"
	"io"
	"net"
	"net/http"
	"net/url"
	"sort"
	"strconv"
	"strings"
	"time"

	"github.com/smallnest/rpcx/protocol"
	"github.com/smallnest/rpcx/server"
	"github.com/smallnest/rpcx/share"

	"verifharness/internal/common"
	"verifharness/internal/refcodec"
)

func init() {
	props["C15"] = func(r *common.Rand, tier string, o *common.Out, replay string) { runIngress("C15", r, tier, o, replay) }
	props["C19"] = func(r *common.Rand, tier string, o *common.Out, replay string) { runIngress("C19", r, tier, o, replay) }
}

type stagePlugin struct {
	acceptVeto, postRead, preCall bool
	rec                           *reqRecorder // when set: remembers the request every front end hands to the post-read stage
}

func (p *stagePlugin) HandleConnAccept(c net.Conn) (net.Conn, bool) { return c, !p.acceptVeto }
func (p *stagePlugin) PostReadRequest(ctx context.Context, r *protocol.Message, e error) error {
	if p.rec != nil && r != nil {
		p.rec.note(r)
	}
	if p.postRead {
		return errors.New("rejected by the post-read plugin")
	}
	return nil
}
func (p *stagePlugin) PreCall(ctx context.Context, serviceName, methodName string, args interface{}) (interface{}, error) {
	if p.preCall {
		// a plugin that rejects has no arguments to hand on
		return nil, errors.New("rejected by the pre-call plugin")
	}
	return args, nil
}

// a service with raw-bytes arguments and reply (serialize type 0): "id:a:b" -> "a*b"
type RawSvc struct{ h *handlerEnv }

func (t *RawSvc) Mul(ctx context.Context, a *[]byte, r *[]byte) error {
	f := strings.Split(string(*a), ":")
	if len(f) != 3 {
		return errors.New("raw: bad arguments")
	}
	id, _ := strconv.Atoi(f[0])
	x, _ := strconv.Atoi(f[1])
	y, _ := strconv.Atoi(f[2])
	c, err := t.h.run(id, x, y, "ok", "")
	if err != nil {
		return err
	}
	*r = []byte(strconv.Itoa(c))
	return nil
}

type tcpRig struct {
	srv  *server.Server
	h    *handlerEnv
	addr string
	done chan error
	rec  *reqRecorder
}

// a plugin that breaks down while a refusal is being answered (fault = prewrite | postwrite): a fault at exactly that
// point must not turn the refusal into an admission
type faultyAnswerPlugin struct{ fault string }

func (p *faultyAnswerPlugin) PreWriteResponse(ctx context.Context, req, res *protocol.Message, err error) error {
	if p.fault == "prewrite" && err != nil {
		var m map[string]string
		m["refused"] = err.Error() // nil map: panics
	}
	return nil
}
func (p *faultyAnswerPlugin) PostWriteResponse(ctx context.Context, req, res *protocol.Message, err error) error {
	if p.fault == "postwrite" && err != nil {
		panic("the post-write plugin cannot cope with a refusal")
	}
	return nil
}

func newTCPRig(acceptVeto, postRead, auth, preCall bool) (*tcpRig, error) {
	return newTCPRigFault(acceptVeto, postRead, auth, preCall, "")
}

func newTCPRigFault(acceptVeto, postRead, auth, preCall bool, fault string) (*tcpRig, error) {
	rg := &tcpRig{h: newHandlerEnv(false), done: make(chan error, 1), rec: &reqRecorder{}}
	s := server.NewServer()
	rg.srv = s
	switch fault {
	case "prewrite", "postwrite":
		s.Plugins.Add(&faultyAnswerPlugin{fault: fault})
	case "svcerr":
		s.HandleServiceError = func(err error) { panic("HandleServiceError cannot cope with: " + err.Error()) }
	}
	s.RegisterName("Arith", &Arith{h: rg.h}, "")
	s.RegisterName("com.example.Arith", &Arith{h: rg.h}, "")
	s.RegisterFunctionName("Fn", "mul", func(ctx context.Context, a *SArgs, rep *SReply) error {
		c, err := rg.h.run(a.Id, a.A, a.B, a.Mode, a.Text)
		if err != nil {
			return err
		}
		rep.Id, rep.C = a.Id, c
		rep.Meta = seenMeta(ctx, a.Id)
		return nil
	}, "")
	s.RegisterName("Raw", &RawSvc{h: rg.h}, "")
	// a function registered under the empty service path (rpcx allows it): a request that names no service must
	// still not reach it through the gateway
	s.RegisterFunctionName("", "Mul", func(ctx context.Context, a *SArgs, rep *SReply) error {
		c, err := rg.h.run(a.Id, a.A, a.B, a.Mode, a.Text)
		rep.Id, rep.C = a.Id, c
		return err
	}, "")
	// the rejecting plugin stands between two plugins that accept everything: a stage's verdict is a
	// rejection as soon as one of its plugins rejects, wherever it is registered
	s.Plugins.Add(&stagePlugin{rec: rg.rec})
	if acceptVeto || postRead || preCall {
		s.Plugins.Add(&stagePlugin{acceptVeto: acceptVeto, postRead: postRead, preCall: preCall})
	}
	s.Plugins.Add(&stagePlugin{})
	if auth {
		s.AuthFunc = func(ctx context.Context, req *protocol.Message, token string) error {
			if token == "good" {
				return nil
			}
			return errors.New("auth: invalid token")
		}
	}
	ln, err := net.Listen("tcp", "127.0.0.1:0")
	if err != nil {
		return nil, err
	}
	rg.addr = ln.Addr().String()
	go func() { rg.done <- s.ServeListener("tcp", ln) }()
	select {
	case <-s.Started:
	case <-time.After(2 * time.Second):
	}
	time.Sleep(5 * time.Millisecond) // the HTTP front ends start in their own goroutines
	return rg, nil
}

func (r *tcpRig) stop() { r.srv.Close() }

func (r *tcpRig) drain() {
	for len(r.h.entered) > 0 {
		<-r.h.entered
	}
	for len(r.h.finished) > 0 {
		<-r.h.finished
	}
}

func (r *tcpRig) invokedCount() int {
	r.h.mu.Lock()
	defer r.h.mu.Unlock()
	return len(r.h.invoked)
}

type ingReq struct {
	ing       string // native gateway jsonrpc
	token     string // "", "bad", "good"
	hb, ow    bool
	path      string
	method    string
	id        int
	a, b      int
	mode      string
	text      string
	meta      map[string]string
	seq       uint64
	malformed string // gateway: nopath nomethod noser badid badser badmeta; jsonrpc: nodot
	payload   string // overrides the JSON body when set
	raw       bool   // serialize type 0: raw bytes (native and gateway only)
}

type ingRes struct {
	kind    string // result error closed echo nothing
	c       int
	id      int
	text    string
	meta    string // handler-observed request metadata (from the reply)
	resMeta string // response metadata seen by the caller (without reserved keys)
	closed  bool
	status  int
}

func (q ingReq) ser() byte {
	if q.raw {
		return 0
	}
	return 1
}

func (q ingReq) body() []byte {
	if q.raw {
		return []byte(fmt.Sprintf("%d:%d:%d", q.id, q.a, q.b))
	}
	if q.payload != "" {
		return []byte(q.payload)
	}
	b, _ := json.Marshal(map[string]interface{}{"Id": q.id, "A": q.a, "B": q.b, "Mode": q.mode, "Text": q.text})
	return b
}

func canonMeta(m map[string]string) string {
	var parts []string
	for k, v := range m {
		if strings.HasPrefix(k, "__") || k == "rid" {
			continue
		}
		parts = append(parts, k+"="+v)
	}
	sort.Strings(parts)
	return strings.Join(parts, "&")
}

func (r *tcpRig) doNative(q ingReq) ingRes {
	conn, err := net.DialTimeout("tcp", r.addr, 2*time.Second)
	if err != nil {
		return ingRes{kind: "nothing", closed: true}
	}
	defer conn.Close()
	var meta []refcodec.KV
	for k, v := range q.meta {
		meta = append(meta, refcodec.KV{K: []byte(k), V: []byte(v)})
	}
	if q.token != "" {
		meta = append(meta, refcodec.KV{K: []byte(share.AuthKey), V: []byte(q.token)})
	}
	spec := reqSpec{seq: q.seq, path: q.path, method: q.method, ser: q.ser(), hb: q.hb, oneway: q.ow, payload: q.body(), meta: meta}
	conn.SetDeadline(time.Now().Add(3 * time.Second))
	if _, err := conn.Write(spec.frame()); err != nil {
		return ingRes{kind: "nothing", closed: true}
	}
	rd := bufio.NewReader(conn)
	readFrame := func() (*refcodec.Frame, error) {
		hdr := make([]byte, 16)
		if _, err := io.ReadFull(rd, hdr); err != nil {
			return nil, err
		}
		body := make([]byte, int(binary.BigEndian.Uint32(hdr[12:16])))
		if _, err := io.ReadFull(rd, body); err != nil {
			return nil, err
		}
		return refcodec.Parse(append(hdr, body...))
	}
	res := ingRes{kind: "nothing"}
	expectFrame := !q.ow || q.hb
	var first *refcodec.Frame
	if expectFrame {
		conn.SetReadDeadline(time.Now().Add(1500 * time.Millisecond))
		f, err := readFrame()
		if err != nil {
			res.closed = errors.Is(err, io.EOF) || strings.Contains(err.Error(), "reset")
			return res
		}
		first = f
	}
	// is the connection still open?  a heartbeat must be echoed
	probe := reqSpec{seq: 424242, hb: true, ser: 1, payload: []byte("p")}
	conn.SetDeadline(time.Now().Add(700 * time.Millisecond))
	if _, err := conn.Write(probe.frame()); err != nil {
		res.closed = true
	} else {
		for {
			f, err := readFrame()
			if err != nil {
				res.closed = true
				break
			}
			v := viewFrame(f)
			if v.hb && v.seq == 424242 {
				break
			}
			if first == nil {
				first = f // a response to a one-way request would show up here
			}
		}
	}
	if first != nil {
		v := viewFrame(first)
		switch {
		case v.hb:
			res.kind = "echo"
		case v.status == "error":
			res.kind, res.text = "error", v.errText
		default:
			res.kind = "result"
			if q.raw {
				res.c, _ = strconv.Atoi(string(v.payload))
				res.id = q.id
			} else if rp, ok := replyOf(v); ok {
				res.c, res.id, res.meta = rp.C, rp.Id, rp.Meta
			}
		}
		res.resMeta = canonMeta(v.meta)
	}
	return res
}

func (r *tcpRig) doGateway(q ingReq) ingRes {
	var rd io.Reader = bytes.NewReader(q.body())
	if q.seq%3 == 1 {
		rd = struct{ io.Reader }{rd} // no Content-Length: the body travels chunked
	}
	req, _ := http.NewRequest("POST", "http://"+r.addr+"/", rd)
	h := req.Header
	h.Set("X-RPCX-MessageID", strconv.FormatUint(q.seq, 10))
	h.Set("X-RPCX-MessageType", "0")
	h.Set("X-RPCX-SerializeType", strconv.Itoa(int(q.ser())))
	h.Set("X-RPCX-ServicePath", q.path)
	h.Set("X-RPCX-ServiceMethod", q.method)
	if q.hb {
		h.Set("X-RPCX-Heartbeat", "true")
	}
	if q.ow {
		h.Set("X-RPCX-Oneway", "true")
	}
	if q.token != "" {
		h.Set("Authorization", q.token)
	}
	if len(q.meta) > 0 {
		vals := url.Values{}
		for k, v := range q.meta {
			vals.Set(k, v)
		}
		h.Set("X-RPCX-Meta", vals.Encode())
	}
	switch q.malformed {
	case "nopath":
		h.Del("X-RPCX-ServicePath")
	case "nomethod":
		h.Del("X-RPCX-ServiceMethod")
	case "noser":
		h.Del("X-RPCX-SerializeType")
	case "badid":
		h.Set("X-RPCX-MessageID", "not-a-number")
	case "badser":
		h.Set("X-RPCX-SerializeType", "json")
	case "badmeta":
		h.Set("X-RPCX-Meta", "%zz=1")
	case "badser+ct": // a serialize type that is not a number next to a compress type that is one
		h.Set("X-RPCX-SerializeType", "raw")
		h.Set("X-RPCX-CompressType", "0")
	case "badct":
		h.Set("X-RPCX-CompressType", "gzip")
	case "badid+ct":
		h.Set("X-RPCX-MessageID", "seven")
		h.Set("X-RPCX-CompressType", "0")
	}
	cl := &http.Client{Transport: &http.Transport{DisableKeepAlives: true}, Timeout: 3 * time.Second}
	resp, err := cl.Do(req)
	if err != nil {
		return ingRes{kind: "nothing", closed: true}
	}
	defer resp.Body.Close()
	body, _ := io.ReadAll(resp.Body)
	res := ingRes{status: resp.StatusCode}
	rm, _ := url.ParseQuery(resp.Header.Get("X-RPCX-Meta"))
	m := map[string]string{}
	for k, v := range rm {
		if len(v) > 0 {
			m[k] = v[0]
		}
	}
	res.resMeta = canonMeta(m)
	if resp.StatusCode != 200 || resp.Header.Get("X-RPCX-MessageStatusType") == "Error" {
		res.kind = "error"
		res.text = resp.Header.Get("X-RPCX-ErrorMessage")
		if res.text == "" {
			res.text = strings.TrimSpace(string(body))
		}
		return res
	}
	res.kind = "result"
	if q.ow && len(body) == 0 {
		res.kind = "nothing" // a one-way request runs but carries no reply back
		return res
	}
	var rp SReply
	if q.raw {
		res.c, _ = strconv.Atoi(string(body))
		res.id = q.id
	} else if json.Unmarshal(body, &rp) == nil {
		res.c, res.id, res.meta = rp.C, rp.Id, rp.Meta
	}
	return res
}

func (r *tcpRig) doJSONRPC(q ingReq) ingRes {
	method := q.path + "." + q.method
	if q.malformed == "nodot" {
		method = q.method
	}
	msg := map[string]interface{}{"jsonrpc": "2.0", "method": method, "params": json.RawMessage(q.body())}
	if !q.ow {
		msg["id"] = q.id + 1
	}
	b, _ := json.Marshal(msg)
	req, _ := http.NewRequest("POST", "http://"+r.addr+"/", bytes.NewReader(b))
	req.Header.Set("X-JSONRPC-2.0", "true")
	if q.token != "" {
		req.Header.Set("Authorization", q.token)
	}
	if len(q.meta) > 0 {
		vals := url.Values{}
		for k, v := range q.meta {
			vals.Set(k, v)
		}
		req.Header.Set("X-RPCX-Meta", vals.Encode())
	}
	cl := &http.Client{Transport: &http.Transport{DisableKeepAlives: true}, Timeout: 3 * time.Second}
	resp, err := cl.Do(req)
	if err != nil {
		return ingRes{kind: "nothing", closed: true}
	}
	defer resp.Body.Close()
	body, _ := io.ReadAll(resp.Body)
	res := ingRes{status: resp.StatusCode}
	if q.ow {
		time.Sleep(20 * time.Millisecond) // a notification is processed in its own goroutine
		res.kind = "nothing"
		return res
	}
	var out struct {
		Result json.RawMessage `json:"result"`
		Error  *struct {
			Message string `json:"message"`
		} `json:"error"`
	}
	if err := json.Unmarshal(body, &out); err != nil {
		res.kind, res.text = "error", "unparsable: "+string(body)
		return res
	}
	if out.Error != nil {
		res.kind, res.text = "error", out.Error.Message
		return res
	}
	res.kind = "result"
	var rp SReply
	if json.Unmarshal(out.Result, &rp) == nil {
		res.c, res.id, res.meta = rp.C, rp.Id, rp.Meta
	}
	return res
}

func (r *tcpRig) do(q ingReq) ingRes {
	switch q.ing {
	case "native":
		return r.doNative(q)
	case "gateway":
		return r.doGateway(q)
	default:
		return r.doJSONRPC(q)
	}
}

// ---------- model line ----------
func errClassOfText(t string) string {
	switch {
	case strings.HasPrefix(t, "rpcx: can't find service "):
		return "nosvc"
	case strings.HasPrefix(t, "rpcx: can't find method "):
		return "nometh"
	case strings.Contains(t, "rejected by the") || strings.Contains(t, "auth: invalid token") || strings.Contains(t, "empty service") ||
		strings.Contains(t, "empty serialized type") || strings.Contains(t, "strconv.") || strings.Contains(t, "invalid URL escape") ||
		strings.Contains(t, "must contains servicepath"):
		return "reject"
	case strings.Contains(t, "json:") || strings.Contains(t, "invalid character") || strings.Contains(t, "cannot unmarshal") || strings.Contains(t, "unexpected end") || strings.Contains(t, "EOF"):
		return "decode"
	case strings.HasPrefix(t, "[service internal error]"):
		return "panic"
	default:
		return "text"
	}
}

func (q ingReq) enc(cfg [4]bool) string {
	b := func(x bool) string {
		if x {
			return "1"
		}
		return "0"
	}
	mm := canonMeta(q.meta)
	return fmt.Sprintf("%s%s%s%s|%s|%s|%s%s|%s.%s|%d|%d|%d|%s|%s|%s|%s|%d", b(cfg[0]), b(cfg[1]), b(cfg[2]), b(cfg[3]), q.ing, q.token, b(q.hb), b(q.ow),
		q.path, q.method, q.id, q.a, q.b, q.mode, url.QueryEscape(q.text), q.malformed, url.QueryEscape(mm), q.seq)
}

func (q ingReq) modelLine(cfg [4]bool) string {
	b := func(x bool) string {
		if x {
			return "1"
		}
		return "0"
	}
	target := "method"
	switch {
	case q.path == "Fn":
		target = "func"
	case q.path != "Arith" && q.path != "com.example.Arith" && q.path != "Raw":
		target = "nosvc"
	case q.method == "nometh":
		target = "nometh"
	}
	tok := map[string]string{"": "missing", "bad": "wrong", "good": "right"}[q.token]
	h := "r"
	if q.mode == "err" {
		h = "f"
	} else if q.mode == "panic" {
		h = "p"
	}
	dec := "1"
	if q.payload != "" {
		dec = "0"
	}
	return fmt.Sprintf("ing %s %s%s%s%s %s %s%s %s %s %s %d %s", q.ing, b(cfg[0]), b(cfg[1]), b(cfg[2]), b(cfg[3]), tok, b(q.hb), b(q.ow),
		b(q.malformed != ""), target, h, q.a*q.b, dec)
}

func (x ingRes) show(invoked int) string {
	out := x.kind
	switch x.kind {
	case "result":
		out = fmt.Sprintf("result:%d", x.c)
	case "error":
		out = "error:" + errClassOfText(x.text)
	}
	c := "0"
	if x.closed {
		c = "1"
	}
	return fmt.Sprintf("%s closed=%s inv=%d", out, c, invoked)
}

// a PreWriteResponse plugin that parks the response to the request whose id is armed
type parkAnswerPlugin struct {
	mu      sync.Mutex
	armed   uint64 // sequence number to park (0: none)
	entered chan struct{}
	release chan struct{}
}

func (p *parkAnswerPlugin) PreWriteResponse(ctx context.Context, req, res *protocol.Message, err error) error {
	p.mu.Lock()
	hit := p.armed != 0 && req != nil && req.Seq() == p.armed
	if hit {
		p.armed = 0
	}
	p.mu.Unlock()
	if hit {
		close(p.entered)
		<-p.release
	}
	return nil
}

// ingOverlap: two gateway requests (A, B) on separate connections overlap: A's answer stands at the pre-write stage while
// B is served completely; A's answer still carries A's own response metadata and result - what the native protocol
// gives for A.  Oracle only.  case: overlap|<ingress of B>
func ingOverlap(o *common.Out, id string, bIng string) {
	abstract := "overlap|" + bIng
	o.Begin(id, abstract)
	o.Count("overlapping-requests-across-ingresses")
	rg, err := newTCPRig(false, false, false, false)
	if err != nil {
		o.Fail(id, "rig", err.Error(), abstract)
		return
	}
	defer rg.stop()
	pp := &parkAnswerPlugin{entered: make(chan struct{}), release: make(chan struct{})}
	rg.srv.Plugins.Add(pp)
	qa := ingReq{ing: "gateway", path: "Arith", method: "Mul", id: 31, a: 3, b: 5, mode: "ok", seq: 7101, meta: map[string]string{"k0": "for-A", "k1": "a b"}}
	qb := ingReq{ing: bIng, path: "Arith", method: "Mul", id: 33, a: 4, b: 6, mode: "ok", seq: 7102, meta: map[string]string{"k0": "for-B", "k1": "x/y"}}
	qn := qa
	qn.ing, qn.seq = "native", 7103
	ref := rg.do(qn) // what the native protocol answers for A's request
	rg.drain()
	pp.mu.Lock()
	pp.armed = qa.seq
	pp.mu.Unlock()
	resA := make(chan ingRes, 1)
	go func() { resA <- rg.do(qa) }()
	select {
	case <-pp.entered:
	case <-time.After(3 * time.Second):
		close(pp.release)
		o.Fail(id, "rig", "A's answer never reached the pre-write stage", abstract)
		return
	}
	rb := rg.do(qb)
	close(pp.release)
	var ra ingRes
	select {
	case ra = <-resA:
	case <-time.After(4 * time.Second):
		o.Fail(id, "gateway-no-answer", "A was never answered", abstract)
		return
	}
	if ra.kind != "result" || ra.c != 15 || ra.id != 31 || ra.resMeta != ref.resMeta {
		o.Fail(id, "ingress-metadata-differs", fmt.Sprintf("gateway request A overlapped by a %s request B: A got kind=%s c=%d id=%d response metadata %q; natively the same request gives %q",
			bIng, ra.kind, ra.c, ra.id, ra.resMeta, ref.resMeta), abstract)
	}
	if rb.kind != "result" || rb.c != 24 || rb.id != 33 {
		o.Fail(id, "ingress-result-differs", fmt.Sprintf("request B (%s) served while A's answer was held: kind=%s c=%d id=%d", bIng, rb.kind, rb.c, rb.id), abstract)
	}
	rg.drain()
	o.ImplOnly(id, abstract, true)
}

// authTail: a request that fails authentication, and behind it in the same write the first k bytes of another frame (a
// peer that pipelines, cut short): the connection is closed all the same, whether or not the rest ever arrives, and
// nothing of what follows reaches a handler.  Oracle only.  case: authtail|<k>|<one-way>
func authTail(o *common.Out, id string, k int, ow bool) {
	abstract := fmt.Sprintf("authtail|%d|%v", k, ow)
	o.Begin(id, abstract)
	o.Count("rejected-request-then-fragment")
	rg, err := newTCPRig(false, false, true, false)
	if err != nil {
		o.Fail(id, "rig", err.Error(), abstract)
		return
	}
	defer rg.stop()
	conn, err := net.DialTimeout("tcp", rg.addr, 2*time.Second)
	if err != nil {
		o.Fail(id, "rig", err.Error(), abstract)
		return
	}
	defer conn.Close()
	body, _ := json.Marshal(map[string]interface{}{"Id": 61, "A": 6, "B": 7, "Mode": "ok"})
	bad := reqSpec{seq: 8101, path: "Arith", method: "Mul", ser: 1, oneway: ow, payload: body,
		meta: []refcodec.KV{{K: []byte(share.AuthKey), V: []byte("wrong")}}}
	next := reqSpec{seq: 8102, path: "Arith", method: "Mul", ser: 1, payload: body,
		meta: []refcodec.KV{{K: []byte(share.AuthKey), V: []byte("good")}}}
	nf := next.frame()
	if k < 0 {
		k = len(nf) + k
	}
	before := rg.invokedCount()
	conn.SetDeadline(time.Now().Add(8 * time.Second))
	if _, err := conn.Write(append(bad.frame(), nf[:k]...)); err != nil {
		o.Fail(id, "rig", err.Error(), abstract)
		return
	}
	closed := false
	buf := make([]byte, 4096)
	for {
		_, err := conn.Read(buf)
		if err != nil {
			var ne net.Error
			closed = !(errors.As(err, &ne) && ne.Timeout())
			break
		}
	}
	if !closed {
		o.Fail(id, "auth-failure-not-closed", fmt.Sprintf("the native connection was still open 8 s after failing authentication (%d bytes of a further frame were sent behind the rejected request)", k), abstract)
	}
	if inv := rg.invokedCount() - before; inv > 0 {
		o.Fail(id, "handler-reached", fmt.Sprintf("%d handler(s) ran on a connection that failed authentication", inv), abstract)
	}
	o.ImplOnly(id, abstract, true)
}

func runIngress(prop string, r *common.Rand, tier string, o *common.Out, replay string) {
	if strings.HasPrefix(replay, "authtail|") {
		p := strings.Split(replay, "|")
		k, _ := strconv.Atoi(p[1])
		authTail(o, "replay", k, p[2] == "true")
		return
	}
	if strings.HasPrefix(replay, "refauth|") {
		runSrv("C15", r, tier, o, replay)
		return
	}
	if replay == "" && prop == "C15" {
		k := 0
		for _, ow := range []bool{false, true} {
			for _, between := range []bool{false, true} {
				k++
				srvRefusedThenAuth(o, fmt.Sprintf("refauth%d", k), ow, between)
				for _, opt := range []string{"pool", "async", "none", "none-pool"} {
					k++
					srvRefusedThenAuthOn(o, fmt.Sprintf("refauth%d", k), ow, between, opt)
				}
			}
		}
	}
	if replay == "" && prop == "C15" {
		for i, k := range []int{1, 4, 12, 16, 17, 40, -1} {
			authTail(o, fmt.Sprintf("at%d", i), k, i%3 == 2)
		}
	}
	if strings.HasPrefix(replay, "overlap|") {
		ingOverlap(o, "replay", strings.TrimPrefix(replay, "overlap|"))
		return
	}
	if strings.HasPrefix(replay, "qpool|") {
		runSrv("C15", r, tier, o, replay)
		return
	}
	if replay == "" && prop == "C15" {
		// a request the connection loop refuses, read while admitted requests of the same connection are still waiting in
		// the worker pool: when the pool gets to them, handlers run for the admitted ones, with their own arguments
		k := 0
		for _, order := range [][]int{{0, 1, 2}, {2, 1, 0}, {0, 2, 1}} {
			for _, ow := range []bool{false, true} {
				k++
				reqs := []sreqCase{{seq: 1, style: "method", ser: 1, a: 3, b: 4, mode: "ok"},
					{seq: 2, style: "func", ser: 1, a: 9, b: 9, mode: "limit", ow: ow},
					{seq: 3, style: "pooled", ser: 1, a: 5, b: 6, mode: "ok"}}
				srvQueuedPool(o, fmt.Sprintf("qp%d", k), reqs, order, true)
			}
		}
	}
	if replay == "" && prop == "C19" {
		for i, ing := range []string{"gateway", "native", "gateway"} {
			ingOverlap(o, fmt.Sprintf("ov%d", i), ing)
		}
	}
	rigs := map[[4]bool]*tcpRig{}
	defer func() {
		for _, rg := range rigs {
			rg.stop()
		}
	}()
	getRig := func(cfg [4]bool) *tcpRig {
		if rg := rigs[cfg]; rg != nil {
			return rg
		}
		rg, err := newTCPRig(cfg[0], cfg[1], cfg[2], cfg[3])
		if err != nil {
			return nil
		}
		rigs[cfg] = rg
		return rg
	}
	runOne := func(id string, cfg [4]bool, q ingReq) ingRes {
		abstract := q.enc(cfg)
		o.Begin(id, abstract)
		rg := getRig(cfg)
		if rg == nil {
			o.Fail(id, "rig", "cannot listen on loopback", abstract)
			return ingRes{}
		}
		before := rg.invokedCount()
		res := rg.do(q)
		time.Sleep(2 * time.Millisecond)
		inv := rg.invokedCount() - before
		rg.drain()
		// ---- C15 oracle: a rejected request reaches no handler and gets no result ----
		rejected := cfg[0] || cfg[1] || cfg[3] || (cfg[2] && q.token != "good" && !(q.ing == "native" && q.hb)) || (q.ing != "native" && q.malformed != "")
		if q.ing == "native" && q.hb {
			rejected = cfg[0] || cfg[1]
		}
		if rejected && inv > 0 {
			o.Fail(id, "handler-reached", fmt.Sprintf("a rejected request (%s) ran %d handler(s)", q.ing, inv), abstract)
		}
		if rejected && res.kind == "result" {
			o.Fail(id, "result-for-rejected", fmt.Sprintf("a rejected request (%s) received a result: C=%d", q.ing, res.c), abstract)
		}
		if q.ing == "native" && q.hb && inv > 0 {
			o.Fail(id, "heartbeat-reached-handler", "a heartbeat-flagged request ran a handler", abstract)
		}
		if q.ing == "native" && !cfg[0] && !cfg[1] && cfg[2] && q.token != "good" && !q.hb && !res.closed {
			o.Fail(id, "auth-failure-not-closed", "the native connection stayed open after failing authentication", abstract)
		}
		o.Case(id, q.modelLine(cfg), res.show(inv), true)
		o.Count("ingress=" + q.ing)
		return res
	}
	if replay != "" && (strings.HasPrefix(replay, "conv ") || strings.HasPrefix(replay, "gw ") || strings.HasPrefix(replay, "jr ")) {
		replayFront(o, getRig([4]bool{}), replay)
		return
	}
	fault := ""
	if strings.HasPrefix(replay, "fault|") {
		p := strings.SplitN(replay, "|", 3)
		fault, replay = p[1], p[2]
	}
	if replay != "" {
		p := strings.Split(replay, "|")
		cfg := [4]bool{p[0][0] == '1', p[0][1] == '1', p[0][2] == '1', p[0][3] == '1'}
		pm := strings.SplitN(p[4], ".", 2)
		if strings.HasPrefix(p[4], "com.example.Arith") {
			pm = []string{"com.example.Arith", strings.TrimPrefix(p[4], "com.example.Arith.")}
		}
		at := func(s string) int { n, _ := strconv.Atoi(s); return n }
		text, _ := url.QueryUnescape(p[9])
		ms, _ := url.QueryUnescape(p[11])
		meta := map[string]string{}
		for _, kv := range strings.Split(ms, "&") {
			if f := strings.SplitN(kv, "=", 2); len(f) == 2 {
				meta[f[0]] = f[1]
			}
		}
		seq, _ := strconv.ParseUint(p[12], 10, 64)
		q := ingReq{ing: p[1], token: p[2], hb: p[3][0] == '1', ow: p[3][1] == '1', path: pm[0], method: pm[1], id: at(p[5]), a: at(p[6]), b: at(p[7]),
			mode: p[8], text: text, malformed: p[10], meta: meta, seq: seq}
		if fault != "" {
			rg, err := newTCPRigFault(cfg[0], cfg[1], cfg[2], cfg[3], fault)
			if err != nil {
				return
			}
			defer rg.stop()
			before := rg.invokedCount()
			res := rg.do(q)
			time.Sleep(20 * time.Millisecond)
			if inv := rg.invokedCount() - before; inv > 0 {
				o.Fail("replay", "handler-reached", fmt.Sprintf("a request that failed authentication (fault while answering: %s) ran %d handler(s)", fault, inv), replay)
			}
			if res.kind == "result" {
				o.Fail("replay", "result-for-rejected", "a request that failed authentication received a result", replay)
			}
			o.ImplOnly("replay", replay, true)
			return
		}
		runOne("replay", cfg, q)
		return
	}
	id := 0
	next := func() string { id++; return fmt.Sprintf("i%d", id) }
	if prop == "C15" {
		// exhaustive matrix: stage x token x flags x ingress x target
		cfgs := [][4]bool{{false, false, true, false}, {true, false, true, false}, {false, true, true, false}, {false, false, true, true}, {false, false, false, false}, {false, true, false, true}}
		targets := [][2]string{{"Arith", "Mul"}, {"Fn", "mul"}, {"NoSvc", "x"}}
		for _, cfg := range cfgs {
			for _, ing := range []string{"native", "gateway", "jsonrpc"} {
				for _, tok := range []string{"", "bad", "good"} {
					for flags := 0; flags < 4; flags++ {
						hb, ow := flags&1 == 1, flags&2 == 2
						if ing == "jsonrpc" && hb {
							continue
						}
						for ti, t := range targets {
							if tier != "thorough" && ti == 2 && (flags != 0 || tok == "bad") {
								continue
							}
							q := ingReq{ing: ing, token: tok, hb: hb, ow: ow, path: t[0], method: t[1], id: id, a: 3 + id%5, b: 4, mode: "ok", seq: uint64(id)}
							runOne(next(), cfg, q)
						}
					}
				}
			}
		}
		// every position in a native connection's request sequence: a rejected request in the middle
		// (the earlier ones were served, the later ones are not)
	}
	// malformed gateway / json-rpc requests
	open := [4]bool{false, false, false, false}
	authOnly := [4]bool{false, false, true, false}
	for _, m := range []string{"nopath", "nomethod", "noser", "badid", "badser", "badmeta", "badser+ct", "badct", "badid+ct"} {
		for _, cfg := range [][4]bool{open, authOnly} {
			runOne(next(), cfg, ingReq{ing: "gateway", token: "good", path: "Arith", method: "Mul", id: id, a: 2, b: 3, mode: "ok", malformed: m, seq: 5})
			// the same towards a method that takes raw bytes (whatever the broken header is taken for, the handler could run)
			runOne(next(), cfg, ingReq{ing: "gateway", token: "good", path: "Raw", method: "Mul", id: id, a: 2, b: 3, mode: "ok", malformed: m, seq: 6, raw: true})
		}
	}
	runOne(next(), open, ingReq{ing: "jsonrpc", token: "good", path: "Arith", method: "Mul", id: id, a: 2, b: 3, mode: "ok", malformed: "nodot"})
	if prop == "C15" {
		runStockPlugins(o, next)
	}
	if prop == "C15" {
		// a fault at one point of answering a refusal (a response plugin or the service-error hook panics): the
		// refused request still reaches no handler and gets no result (oracle only: the model has no faults)
		for _, fault := range []string{"prewrite", "postwrite", "svcerr"} {
			rg, err := newTCPRigFault(false, false, true, false, fault)
			if err != nil {
				continue
			}
			for _, ing := range []string{"native", "gateway", "jsonrpc"} {
				for _, tok := range []string{"", "bad"} {
					for _, ow := range []bool{false, true} {
						if ing == "jsonrpc" && ow {
							// a notification runs in a goroutine of its own with no recover: a panicking plugin there ends
							// the process, which no property speaks about (the fault is the plugin's)
							continue
						}
						cid := next()
						q := ingReq{ing: ing, token: tok, ow: ow, path: "Arith", method: "Mul", id: id, a: 2, b: 3, mode: "ok", seq: 9}
						abstract := "fault|" + fault + "|" + q.enc([4]bool{false, false, true, false})
						o.Begin(cid, abstract)
						before := rg.invokedCount()
						res := rg.do(q)
						time.Sleep(20 * time.Millisecond)
						inv := rg.invokedCount() - before
						rg.drain()
						if inv > 0 {
							o.Fail(cid, "handler-reached", fmt.Sprintf("a request that failed authentication (%s, fault while answering: %s) ran %d handler(s)", ing, fault, inv), abstract)
						}
						if res.kind == "result" {
							o.Fail(cid, "result-for-rejected", fmt.Sprintf("a request that failed authentication (%s, fault while answering: %s) received a result", ing, fault), abstract)
						}
						o.ImplOnly(cid, abstract, true)
						o.Count("fault=" + fault)
					}
				}
			}
			rg.stop()
		}
	}
	if prop == "C19" {
		runFrontEnds(r, tier, o, getRig(open), next)
		// equivalence: the same request through three fresh connections
		n := 120
		if tier == "thorough" {
			n = 3000
		}
		paths := [][2]string{{"Arith", "Mul"}, {"Fn", "mul"}, {"com.example.Arith", "Mul"}, {"NoSvc", "x"}, {"no.such.Service", "Mul"}, {"Arith", "nometh"}}
		texts := []string{"boom", "svc failed: code=42", "unicode ✓ ok", "x", strings.TrimSpace(strings.Repeat("long ", 300))}
		for i := 0; i < n; i++ {
			pm := paths[r.Intn(len(paths))]
			q := ingReq{token: "good", path: pm[0], method: pm[1], id: 1000 + i, a: r.Intn(50), b: r.Intn(50), mode: "ok", seq: r.U64() >> uint(r.Intn(60))}
			switch r.Intn(6) {
			case 0:
				q.mode, q.text = "err", texts[r.Intn(len(texts))]
			case 1:
				q.payload = `{"Id": 1, "A": "oops"}` // valid JSON of the wrong type: every ingress can carry it
			}
			if r.Chance(60) {
				q.meta = map[string]string{}
				for k := 0; k < 1+r.Intn(3); k++ {
					q.meta[fmt.Sprintf("k%d", r.Intn(5))] = []string{"v", "a b", "ü=&?", "", "x/y"}[r.Intn(5)]
				}
			}
			cfg := [4]bool{false, false, r.Bool(), false}
			var res [3]ingRes
			ings := []string{"native", "gateway", "jsonrpc"}
			if r.Chance(20) {
				// every serialization type the native protocol carries goes through the gateway too: raw bytes
				q.raw, q.mode, q.text, q.payload, q.meta = true, "ok", "", "", nil
				if q.path != "NoSvc" && q.path != "no.such.Service" {
					q.path, q.method = "Raw", "Mul"
				}
				ings = ings[:2]
			}
			for k, ing := range ings {
				qq := q
				qq.ing = ing
				res[k] = runOne(next(), cfg, qq)
			}
			abstract := "equiv|" + q.enc(cfg)
			cmp := func(name string, a, b ingRes, meta bool) {
				if a.kind != b.kind || a.c != b.c || a.id != b.id || (a.kind == "error" && a.text != b.text) {
					o.Fail(fmt.Sprintf("i%d", id), "ingress-differs", fmt.Sprintf("%s: native gives %s(C=%d,text=%q), %s gives %s(C=%d,text=%q)", name, a.kind, a.c, shorten(a.text), name, b.kind, b.c, shorten(b.text)), abstract)
				}
				if meta && a.kind == "result" && (a.meta != b.meta || a.resMeta != b.resMeta) {
					o.Fail(fmt.Sprintf("i%d", id), "ingress-metadata-differs", fmt.Sprintf("%s: handler saw metadata %q natively and %q through %s; response metadata %q vs %q", name, a.meta, b.meta, name, a.resMeta, b.resMeta), abstract)
				}
			}
			cmp("gateway", res[0], res[1], true)
			if !q.raw {
				cmp("jsonrpc", res[0], res[2], false)
			}
		}
	}
}
