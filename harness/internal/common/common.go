// Package common: PRNG, output files and statistics shared by the per-property harnesses.
package common

import (
	"bufio"
	"crypto/sha256"
	"encoding/hex"
	"encoding/json"
	"fmt"
	"os"
	"path/filepath"
	"sort"
)

// Rand is a splitmix64 PRNG: every random choice of a run derives from VERIF_SEED.
type Rand struct{ s uint64 }

func NewRand(seed uint64) *Rand { return &Rand{s: seed*0x9E3779B97F4A7C15 + 0x1234567} }
func (r *Rand) U64() uint64 {
	r.s += 0x9E3779B97F4A7C15
	z := r.s
	z = (z ^ (z >> 30)) * 0xBF58476D1CE4E5B9
	z = (z ^ (z >> 27)) * 0x94D049BB133111EB
	return z ^ (z >> 31)
}
func (r *Rand) Intn(n int) int {
	if n <= 0 {
		return 0
	}
	return int(r.U64() % uint64(n))
}
func (r *Rand) Bool() bool        { return r.U64()&1 == 1 }
func (r *Rand) Chance(p int) bool { return r.Intn(100) < p }
func (r *Rand) Bytes(n int) []byte {
	b := make([]byte, n)
	for i := range b {
		b[i] = byte(r.U64())
	}
	return b
}

// Out collects what one harness run produced.
type Out struct {
	dir      string
	cases    *bufio.Writer
	impl     *bufio.Writer
	oracle   *bufio.Writer
	files    []*os.File
	progress *os.File

	N          int
	seen       map[string]bool
	Nontrivial int
	Dist       map[string]int
	Samples    []string
	OracleFail int
	Extra      map[string]interface{}
}

func NewOut(dir string) *Out {
	os.MkdirAll(dir, 0o755)
	o := &Out{dir: dir, seen: map[string]bool{}, Dist: map[string]int{}, Extra: map[string]interface{}{}}
	mk := func(name string) *bufio.Writer {
		f, err := os.Create(filepath.Join(dir, name))
		if err != nil {
			panic(err)
		}
		o.files = append(o.files, f)
		return bufio.NewWriterSize(f, 1<<20)
	}
	o.cases = mk("cases.txt")
	o.impl = mk("impl.txt")
	o.oracle = mk("oracle.txt")
	p, _ := os.Create(filepath.Join(dir, "progress.txt"))
	o.progress = p
	return o
}

// Begin logs the case about to run (so that a crash of the code under test can be attributed).
func (o *Out) Begin(id string, desc string) {
	if o.progress != nil {
		fmt.Fprintf(o.progress, "%s\t%s\n", id, desc)
	}
}

// Case records one case: the model input line, the implementation's projected observables,
// whether the case is non-trivial by the property's rule, and a canonical form for de-duplication.
func (o *Out) Case(id, modelInput, implObs string, nontrivial bool) {
	o.N++
	fmt.Fprintf(o.cases, "%s\t%s\n", id, modelInput)
	fmt.Fprintf(o.impl, "%s\t%s\n", id, implObs)
	h := sha256.Sum256([]byte(modelInput))
	k := hex.EncodeToString(h[:8])
	if !o.seen[k] {
		o.seen[k] = true
		if nontrivial {
			o.Nontrivial++
		}
	}
	if len(o.Samples) < 5 && nontrivial {
		s := modelInput + "  =>  " + implObs
		if len(s) > 400 {
			s = s[:400] + "..."
		}
		o.Samples = append(o.Samples, s)
	}
}

// ImplOnly records a case that has no model counterpart (oracle-only exploration).
func (o *Out) ImplOnly(id, desc string, nontrivial bool) {
	o.N++
	h := sha256.Sum256([]byte(desc))
	k := hex.EncodeToString(h[:8])
	if !o.seen[k] {
		o.seen[k] = true
		if nontrivial {
			o.Nontrivial++
		}
	}
	if len(o.Samples) < 5 && nontrivial {
		s := desc
		if len(s) > 400 {
			s = s[:400] + "..."
		}
		o.Samples = append(o.Samples, s)
	}
}

// Fail records a property-oracle failure for a case.  sig is a short stable signature used
// to match known findings; size orders failures so the smallest is reported as the replay.
func (o *Out) Fail(id, sig, detail string, caseLine string) {
	o.OracleFail++
	rec := map[string]interface{}{"id": id, "sig": sig, "detail": detail, "case": caseLine, "size": len(caseLine)}
	b, _ := json.Marshal(rec)
	o.oracle.Write(b)
	o.oracle.WriteByte('\n')
	// enough is enough: a tree on which the oracle fails this often needs no further cases (each of them may wait for
	// its timeouts); what has been seen is reported
	if o.OracleFail >= 60 {
		o.Extra["stopped_early"] = "60 oracle failures"
		o.Close()
		os.Exit(0)
	}
}

func (o *Out) Count(key string) { o.Dist[key]++ }

func (o *Out) Close() {
	o.cases.Flush()
	o.impl.Flush()
	o.oracle.Flush()
	keys := make([]string, 0, len(o.Dist))
	for k := range o.Dist {
		keys = append(keys, k)
	}
	sort.Strings(keys)
	st := map[string]interface{}{
		"evaluations":         o.N,
		"distinct":            len(o.seen),
		"distinct_nontrivial": o.Nontrivial,
		"distribution":        o.Dist,
		"samples":             o.Samples,
		"oracle_failures":     o.OracleFail,
		"extra":               o.Extra,
	}
	b, _ := json.MarshalIndent(st, "", " ")
	os.WriteFile(filepath.Join(o.dir, "stats.json"), b, 0o644)
	for _, f := range o.files {
		f.Close()
	}
	if o.progress != nil {
		fmt.Fprintf(o.progress, "DONE\n")
		o.progress.Close()
	}
}
