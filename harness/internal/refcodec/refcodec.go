// Package refcodec is an independent reference encoder/parser of the rpcx frame format.  It
// shares no code with rpcx and is the referee of the codec oracles: what the frame's own length
// fields delimit, and whether a byte string is a well-delimited frame at all.
package refcodec

import (
	"errors"
)

type KV struct{ K, V []byte }

type Frame struct {
	Header  [12]byte
	Path    []byte
	Method  []byte
	Meta    []KV   // wire order
	Raw     []byte // payload bytes on the wire (possibly compressed)
	Total   int    // declared body length
	Slack   int    // bytes of the body after the payload section
	FrameLn int    // 16 + Total
}

var (
	ErrShort    = errors.New("ref: truncated")
	ErrMagic    = errors.New("ref: bad magic")
	ErrOverrun  = errors.New("ref: section overruns body")
	ErrMetaForm = errors.New("ref: malformed metadata section")
)

func be32(b []byte) int { return int(b[0])<<24 | int(b[1])<<16 | int(b[2])<<8 | int(b[3]) }

// Parse reads one frame from the beginning of b.
func Parse(b []byte) (*Frame, error) {
	if len(b) < 1 {
		return nil, ErrShort
	}
	if b[0] != 0x08 {
		return nil, ErrMagic
	}
	if len(b) < 16 {
		return nil, ErrShort
	}
	f := &Frame{}
	copy(f.Header[:], b[:12])
	f.Total = be32(b[12:16])
	f.FrameLn = 16 + f.Total
	if len(b) < f.FrameLn {
		return nil, ErrShort
	}
	body := b[16:f.FrameLn]
	pos := 0
	next := func() ([]byte, error) {
		if len(body)-pos < 4 {
			return nil, ErrOverrun
		}
		n := be32(body[pos : pos+4])
		pos += 4
		if n > len(body)-pos {
			return nil, ErrOverrun
		}
		s := body[pos : pos+n]
		pos += n
		return s, nil
	}
	var err error
	if f.Path, err = next(); err != nil {
		return nil, err
	}
	if f.Method, err = next(); err != nil {
		return nil, err
	}
	meta, err := next()
	if err != nil {
		return nil, err
	}
	for p := 0; p < len(meta); {
		if len(meta)-p < 4 {
			return nil, ErrMetaForm
		}
		kl := be32(meta[p : p+4])
		p += 4
		if kl > len(meta)-p || len(meta)-p-kl < 4 {
			return nil, ErrMetaForm
		}
		k := meta[p : p+kl]
		p += kl
		vl := be32(meta[p : p+4])
		p += 4
		if vl > len(meta)-p {
			return nil, ErrMetaForm
		}
		v := meta[p : p+vl]
		p += vl
		f.Meta = append(f.Meta, KV{k, v})
	}
	if f.Raw, err = next(); err != nil {
		return nil, err
	}
	f.Slack = len(body) - pos
	return f, nil
}

func put32(b []byte, n int) []byte {
	return append(b, byte(n>>24), byte(n>>16), byte(n>>8), byte(n))
}

// Build writes a frame with the given wire-order metadata and on-the-wire payload bytes.
func Build(h [12]byte, path, method []byte, meta []KV, raw []byte) []byte {
	var mb []byte
	for _, kv := range meta {
		mb = put32(mb, len(kv.K))
		mb = append(mb, kv.K...)
		mb = put32(mb, len(kv.V))
		mb = append(mb, kv.V...)
	}
	var body []byte
	body = put32(body, len(path))
	body = append(body, path...)
	body = put32(body, len(method))
	body = append(body, method...)
	body = put32(body, len(mb))
	body = append(body, mb...)
	body = put32(body, len(raw))
	body = append(body, raw...)
	out := append([]byte{}, h[:]...)
	out = put32(out, len(body))
	return append(out, body...)
}

// MetaMap applies Go map semantics (later duplicate wins).
func MetaMap(m []KV) map[string]string {
	out := map[string]string{}
	for _, kv := range m {
		out[string(kv.K)] = string(kv.V)
	}
	return out
}
