module verifharness

go 1.23.0

require (
	github.com/apache/thrift v0.21.0
	github.com/dgryski/go-jump v0.0.0-20211018200510-ba001c3ffce0
	github.com/smallnest/rpcx v0.0.0
	github.com/vmihailenco/msgpack/v5 v5.4.1
)

require (
	github.com/akutz/memconn v0.1.0 // indirect
	github.com/alitto/pond v1.9.2 // indirect
	github.com/cenk/backoff v2.2.1+incompatible // indirect
	github.com/cenkalti/backoff v2.2.1+incompatible // indirect
	github.com/cespare/xxhash/v2 v2.3.0 // indirect
	github.com/dgryski/go-rendezvous v0.0.0-20200823014737-9f7001d12a5f // indirect
	github.com/edwingeng/doublejump v1.0.1 // indirect
	github.com/facebookgo/clock v0.0.0-20150410010913-600d898af40a // indirect
	github.com/fatih/color v1.18.0 // indirect
	github.com/go-ping/ping v1.2.0 // indirect
	github.com/go-redis/redis/v8 v8.11.5 // indirect
	github.com/go-redis/redis_rate/v10 v10.0.1 // indirect
	github.com/godzie44/go-uring v0.0.0-20220926161041-69611e8b13d5 // indirect
	github.com/gogo/protobuf v1.3.2 // indirect
	github.com/golang/snappy v0.0.4 // indirect
	github.com/google/uuid v1.6.0 // indirect
	github.com/grandcat/zeroconf v1.0.0 // indirect
	github.com/hashicorp/errwrap v1.1.0 // indirect
	github.com/hashicorp/go-multierror v1.1.1 // indirect
	github.com/hashicorp/golang-lru v1.0.2 // indirect
	github.com/juju/ratelimit v1.0.2 // indirect
	github.com/julienschmidt/httprouter v1.3.0 // indirect
	github.com/kavu/go_reuseport v1.5.0 // indirect
	github.com/libp2p/go-sockaddr v0.2.0 // indirect
	github.com/mattn/go-colorable v0.1.14 // indirect
	github.com/mattn/go-isatty v0.0.20 // indirect
	github.com/miekg/dns v1.1.63 // indirect
	github.com/philhofer/fwd v1.1.3-0.20240916144458-20a13a1f6b7c // indirect
	github.com/rcrowley/go-metrics v0.0.0-20201227073835-cf1acfcdf475 // indirect
	github.com/redis/go-redis/v9 v9.7.3 // indirect
	github.com/rpcxio/libkv v0.5.1 // indirect
	github.com/rs/cors v1.11.1 // indirect
	github.com/rubyist/circuitbreaker v2.2.1+incompatible // indirect
	github.com/soheilhy/cmux v0.1.5 // indirect
	github.com/tinylib/msgp v1.2.5 // indirect
	github.com/valyala/fastrand v1.1.0 // indirect
	github.com/vmihailenco/tagparser/v2 v2.0.0 // indirect
	golang.org/x/net v0.36.0 // indirect
	golang.org/x/sync v0.11.0 // indirect
	golang.org/x/sys v0.30.0 // indirect
	golang.org/x/text v0.22.0 // indirect
	google.golang.org/protobuf v1.36.4 // indirect
)

replace github.com/smallnest/rpcx => /repo
